// facts: translate the synchronisation structure of /repo into coq/gen/FactsC17.v:
//
//	lock_facts    every access to a field of security.SessionCache / SessionEntry
//	              (anywhere in package security) and of ccb.brokerReg, with the
//	              locks held at that point (from the Lock/RLock/Unlock/defer
//	              structure, in source order)
//	cs_facts      per function of package security: how many times SessionCache.mu is
//	              acquired and whether the function writes a SessionCache field
//	var_facts     accesses to the package-level variables of session_manager.go
//	auth_sites    every call of security.NewAuthenticator in the library packages,
//	              with the kind of its configuration argument
//	hook_sites    every place a config-returning hook (func ... *SecurityConfig) is
//	              installed on an Authenticator, with what it hands over
//	broker_io     Write/ReadControlAd calls in brokerReg methods: origin of the
//	              stream argument and locks held
//	stream_send / stream_recv   field accesses of stream.Stream reachable from the
//	              send entry points resp. the receive entry points
package main

import (
	"fmt"
	"go/ast"
	"go/token"
	"go/types"
	"sort"
	"strings"
)

type lockHeld struct{ name, base, mode string }

type access struct {
	fn, field, rw, base string
	held                []lockHeld
}

func exprText(e ast.Expr) string {
	switch v := ast.Unparen(e).(type) {
	case *ast.Ident:
		return v.Name
	case *ast.SelectorExpr:
		return exprText(v.X) + "." + v.Sel.Name
	case *ast.StarExpr:
		return "*" + exprText(v.X)
	case *ast.UnaryExpr:
		return v.Op.String() + exprText(v.X)
	case *ast.IndexExpr:
		return exprText(v.X) + "[]"
	case *ast.CallExpr:
		return exprText(v.Fun) + "()"
	case *ast.FuncLit:
		return "func literal"
	}
	return "?"
}

func namedOf(t types.Type) *types.Named {
	if p, ok := t.(*types.Pointer); ok {
		t = p.Elem()
	}
	n, _ := t.(*types.Named)
	return n
}

func funcKey(p *loadedPkg, fd *ast.FuncDecl) string {
	sub := strings.TrimPrefix(p.Path, modPath+"/")
	if fd.Recv != nil && len(fd.Recv.List) > 0 {
		t := fd.Recv.List[0].Type
		if s, ok := t.(*ast.StarExpr); ok {
			t = s.X
		}
		if id, ok := t.(*ast.Ident); ok {
			return sub + "." + id.Name + "." + fd.Name.Name
		}
	}
	return sub + "." + fd.Name.Name
}

// writes collects the expressions that are assigned / mutated in a function body.
func writeTargets(body ast.Node) map[ast.Expr]bool {
	w := map[ast.Expr]bool{}
	mark := func(e ast.Expr) {
		for {
			e = ast.Unparen(e)
			w[e] = true
			switch v := e.(type) {
			case *ast.IndexExpr: // m[k] = v mutates m
				e = v.X
				continue
			case *ast.SliceExpr:
				e = v.X
				continue
			}
			return
		}
	}
	ast.Inspect(body, func(n ast.Node) bool {
		switch v := n.(type) {
		case *ast.AssignStmt:
			for _, l := range v.Lhs {
				mark(l)
			}
		case *ast.IncDecStmt:
			mark(v.X)
		case *ast.CallExpr:
			if id, ok := v.Fun.(*ast.Ident); ok && (id.Name == "delete" || id.Name == "clear") && len(v.Args) > 0 {
				mark(v.Args[0])
			}
			if id, ok := v.Fun.(*ast.Ident); ok && id.Name == "copy" && len(v.Args) > 0 {
				mark(v.Args[0])
			}
		case *ast.UnaryExpr:
			if v.Op == token.AND { // address taken: may be written through
				if _, isLit := ast.Unparen(v.X).(*ast.CompositeLit); !isLit {
					mark(v.X)
				}
			}
		}
		return true
	})
	return w
}

// lockWalk visits fd's body in source order, tracking Lock/RLock/Unlock calls
// on mutex fields (defer Unlock = held to the end), and reports every field
// access of the watched struct types. Function literals are walked as separate
// bodies starting with no locks (they may run on another goroutine).
func lockWalk(p *loadedPkg, name string, body *ast.BlockStmt, watched map[string]bool, out *[]access) {
	w := writeTargets(body)
	var held []lockHeld
	var lits []*ast.FuncLit
	deferred := map[*ast.CallExpr]bool{}
	ast.Inspect(body, func(n ast.Node) bool {
		switch v := n.(type) {
		case *ast.FuncLit:
			lits = append(lits, v)
			return false
		case *ast.DeferStmt:
			deferred[v.Call] = true
		case *ast.CallExpr:
			if sel, ok := v.Fun.(*ast.SelectorExpr); ok {
				if inner, ok := ast.Unparen(sel.X).(*ast.SelectorExpr); ok {
					if s, ok := p.Info.Selections[inner]; ok && s.Kind() == types.FieldVal {
						ts := s.Type().String()
						if ts == "sync.Mutex" || ts == "sync.RWMutex" {
							owner := "?"
							if nn := namedOf(s.Recv()); nn != nil {
								owner = nn.Obj().Name()
							}
							lk := lockHeld{owner + "." + inner.Sel.Name, exprText(inner.X), "MW"}
							switch sel.Sel.Name {
							case "Lock":
								held = append(held, lk)
							case "RLock":
								lk.mode = "MR"
								held = append(held, lk)
							case "Unlock", "RUnlock":
								if !deferred[v] {
									for i := len(held) - 1; i >= 0; i-- {
										if held[i].name == lk.name && held[i].base == lk.base {
											held = append(held[:i:i], held[i+1:]...)
											break
										}
									}
								}
							}
						}
					}
				}
			}
		case *ast.SelectorExpr:
			s, ok := p.Info.Selections[v]
			if !ok || s.Kind() != types.FieldVal {
				return true
			}
			nn := namedOf(s.Recv())
			if nn == nil || !watched[nn.Obj().Name()] {
				return true
			}
			ts := s.Type().String()
			if ts == "sync.Mutex" || ts == "sync.RWMutex" {
				return true
			}
			rw := "R"
			if w[v] {
				rw = "W"
			}
			*out = append(*out, access{name, nn.Obj().Name() + "." + v.Sel.Name, rw, exprText(v.X), append([]lockHeld(nil), held...)})
		}
		return true
	})
	for i, l := range lits {
		lockWalk(p, fmt.Sprintf("%s$%d", name, i+1), l.Body, watched, out)
	}
}

type csFact struct {
	fn, lock string
	regions  int
	writes   bool
}

// csWalk counts, per function body (function literals separately), how many
// times each watched struct's mutex is acquired (Lock or RLock) and whether the
// body writes a field of that struct: a read-decide-write on guarded state is
// atomic only if it happens inside ONE critical section.
func csWalk(p *loadedPkg, name string, body *ast.BlockStmt, watched map[string]bool, out *[]csFact) {
	w := writeTargets(body)
	regions := map[string]int{}
	writes := map[string]bool{}
	var lits []*ast.FuncLit
	ast.Inspect(body, func(n ast.Node) bool {
		switch v := n.(type) {
		case *ast.FuncLit:
			lits = append(lits, v)
			return false
		case *ast.CallExpr:
			if sel, ok := v.Fun.(*ast.SelectorExpr); ok && (sel.Sel.Name == "Lock" || sel.Sel.Name == "RLock") {
				if inner, ok := ast.Unparen(sel.X).(*ast.SelectorExpr); ok {
					if s, ok := p.Info.Selections[inner]; ok && s.Kind() == types.FieldVal {
						ts := s.Type().String()
						if nn := namedOf(s.Recv()); nn != nil && watched[nn.Obj().Name()] && (ts == "sync.Mutex" || ts == "sync.RWMutex") {
							regions[nn.Obj().Name()+"."+inner.Sel.Name]++
						}
					}
				}
			}
		case *ast.SelectorExpr:
			if s, ok := p.Info.Selections[v]; ok && s.Kind() == types.FieldVal && w[v] {
				if nn := namedOf(s.Recv()); nn != nil && watched[nn.Obj().Name()] {
					writes[nn.Obj().Name()] = true
				}
			}
		}
		return true
	})
	var keys []string
	for k := range regions {
		keys = append(keys, k)
	}
	sort.Strings(keys)
	for _, k := range keys {
		owner := k[:strings.Index(k, ".")]
		*out = append(*out, csFact{name, k, regions[k], writes[owner]})
	}
	for i, l := range lits {
		csWalk(p, fmt.Sprintf("%s$%d", name, i+1), l.Body, watched, out)
	}
}

type varFact struct{ fn, v, rw, kind string }

// counterOps: per (function, variable) the ordered sync/atomic operations applied to a
// package-level counter: CAdd (Add*), CLoad, CStore, COther (Swap, CompareAndSwap, plain)
type counterOps struct {
	fn, v string
	ops   []string
}

// varWalk classifies accesses to package-level variables: inside the closure
// given to sync.Once.Do (OnceInit), after such a Do call in the same function
// (AfterOnce), as operand of a sync/atomic call (Atomic), else Plain.
func varWalk(p *loadedPkg, name string, fd *ast.FuncDecl, vars map[types.Object]bool, out *[]varFact, cops *[]counterOps) {
	w := writeTargets(fd.Body)
	seenDo := false
	opsOf := map[string][]string{}
	var walk func(n ast.Node, inOnce bool, inAtomic string)
	walk = func(n ast.Node, inOnce bool, inAtomic string) {
		ast.Inspect(n, func(x ast.Node) bool {
			switch v := x.(type) {
			case *ast.CallExpr:
				if sel, ok := v.Fun.(*ast.SelectorExpr); ok {
					if o, ok := p.Info.Uses[sel.Sel].(*types.Func); ok {
						if o.FullName() == "(*sync.Once).Do" {
							for _, a := range v.Args {
								walk(a, true, inAtomic)
							}
							seenDo = true
							return false
						}
						if o.Pkg() != nil && o.Pkg().Path() == "sync/atomic" {
							kind := "VAtomicCAS"
							switch {
							case strings.HasPrefix(o.Name(), "Add"), strings.HasPrefix(o.Name(), "And"), strings.HasPrefix(o.Name(), "Or"):
								kind = "VAtomicRMW"
							case strings.HasPrefix(o.Name(), "Load"):
								kind = "VAtomicLoad"
							case strings.HasPrefix(o.Name(), "Store"):
								kind = "VAtomicStore"
							}
							for _, a := range v.Args {
								walk(a, inOnce, kind)
							}
							return false
						}
					}
				}
			case *ast.Ident:
				o := p.Info.Uses[v]
				if o == nil || !vars[o] {
					return true
				}
				rw := "R"
				if w[v] {
					rw = "W"
				}
				kind := "VPlain"
				switch {
				case inAtomic != "":
					kind = inAtomic
				case inOnce:
					kind = "VOnceInit"
				case seenDo && rw == "R":
					kind = "VAfterOnce"
				}
				*out = append(*out, varFact{name, o.Name(), rw, kind})
				if _, isInt := o.Type().Underlying().(*types.Basic); isInt {
					op := "COther"
					switch kind {
					case "VAtomicRMW":
						op = "CAdd"
					case "VAtomicLoad":
						op = "CLoad"
					case "VAtomicStore":
						op = "CStore"
					}
					opsOf[o.Name()] = append(opsOf[o.Name()], op)
				}
			}
			return true
		})
	}
	walk(fd.Body, false, "")
	var ks []string
	for k := range opsOf {
		ks = append(ks, k)
	}
	sort.Strings(ks)
	for _, k := range ks {
		*cops = append(*cops, counterOps{name, k, opsOf[k]})
	}
}

// sliceMut: in-place mutation of a slice that belongs to a SecurityConfig
// (`append(x[:i], x[i+1:]...)`, `x[i] = v`, sort/copy into it) where x is a
// SecurityConfig slice field or a local alias of one: per-connection configs are
// SHALLOW copies, so the backing array is shared between all handshakes.
type sliceMut struct{ fn, what, base string }

func cfgSliceRoot(p *loadedPkg, fd *ast.FuncDecl, e ast.Expr, depth int) string {
	e = ast.Unparen(e)
	switch v := e.(type) {
	case *ast.SliceExpr:
		return cfgSliceRoot(p, fd, v.X, depth)
	case *ast.SelectorExpr:
		if s, ok := p.Info.Selections[v]; ok && s.Kind() == types.FieldVal {
			if nn := namedOf(s.Recv()); nn != nil && nn.Obj().Name() == "SecurityConfig" {
				if _, isSlice := s.Type().Underlying().(*types.Slice); isSlice {
					return "SecurityConfig." + v.Sel.Name
				}
			}
		}
	case *ast.Ident:
		if depth > 3 {
			return ""
		}
		if vo, ok := p.Info.Uses[v].(*types.Var); ok && !vo.IsField() {
			if _, isSlice := vo.Type().Underlying().(*types.Slice); isSlice {
				if def := localDef(p, fd, vo); def != nil {
					return cfgSliceRoot(p, fd, def, depth+1)
				}
			}
		}
	}
	return ""
}

func sliceMuts(p *loadedPkg, out *[]sliceMut) {
	for _, file := range p.Files {
		for _, d := range file.Decls {
			fd, ok := d.(*ast.FuncDecl)
			if !ok || fd.Body == nil {
				continue
			}
			name := funcKey(p, fd)
			ast.Inspect(fd.Body, func(n ast.Node) bool {
				switch v := n.(type) {
				case *ast.CallExpr:
					id, ok := v.Fun.(*ast.Ident)
					if ok && id.Name == "append" && len(v.Args) > 0 {
						if _, isSl := ast.Unparen(v.Args[0]).(*ast.SliceExpr); isSl {
							if r := cfgSliceRoot(p, fd, v.Args[0], 0); r != "" {
								*out = append(*out, sliceMut{name, "append-into-prefix", r})
							}
						}
					}
					if ok && id.Name == "copy" && len(v.Args) > 0 {
						if r := cfgSliceRoot(p, fd, v.Args[0], 0); r != "" {
							*out = append(*out, sliceMut{name, "copy-into", r})
						}
					}
					if sel, ok := v.Fun.(*ast.SelectorExpr); ok && len(v.Args) > 0 {
						if o, ok := p.Info.Uses[sel.Sel].(*types.Func); ok && o.Pkg() != nil && (o.Pkg().Path() == "sort" || o.Pkg().Path() == "slices") &&
							(strings.HasPrefix(o.Name(), "Sort") || o.Name() == "Strings" || o.Name() == "Slice" || o.Name() == "Reverse" || o.Name() == "Delete" || o.Name() == "Insert" || o.Name() == "Compact") {
							if r := cfgSliceRoot(p, fd, v.Args[0], 0); r != "" {
								*out = append(*out, sliceMut{name, o.Pkg().Path() + "." + o.Name(), r})
							}
						}
					}
				case *ast.AssignStmt:
					for _, l := range v.Lhs {
						if ix, ok := ast.Unparen(l).(*ast.IndexExpr); ok {
							if r := cfgSliceRoot(p, fd, ix.X, 0); r != "" {
								*out = append(*out, sliceMut{name, "element-assign", r})
							}
						}
					}
				}
				return true
			})
		}
	}
}

type authSite struct{ fn, arg, kind string }

func authSites(p *loadedPkg, out *[]authSite) {
	for _, file := range p.Files {
		for _, d := range file.Decls {
			fd, ok := d.(*ast.FuncDecl)
			if !ok || fd.Body == nil {
				continue
			}
			name := funcKey(p, fd)
			ast.Inspect(fd.Body, func(n ast.Node) bool {
				call, ok := n.(*ast.CallExpr)
				if !ok || len(call.Args) < 1 {
					return true
				}
				var id *ast.Ident
				switch f := call.Fun.(type) {
				case *ast.Ident:
					id = f
				case *ast.SelectorExpr:
					id = f.Sel
				}
				if id == nil {
					return true
				}
				o, ok := p.Info.Uses[id].(*types.Func)
				if !ok || o.FullName() != modPath+"/security.NewAuthenticator" {
					return true
				}
				arg := call.Args[0]
				kind := "CfgShared"
				if u, ok := ast.Unparen(arg).(*ast.UnaryExpr); ok && u.Op == token.AND {
					if vid, ok := ast.Unparen(u.X).(*ast.Ident); ok {
						if vo, ok := p.Info.Uses[vid].(*types.Var); ok && !vo.IsField() && vo.Parent() != p.Types.Scope() {
							// a local variable: how was it defined?
							def := localDef(p, fd, vo)
							switch d := ast.Unparen(def).(type) {
							case *ast.StarExpr:
								kind = "CfgCopy" // x := *shared
								_ = d
							case *ast.CompositeLit:
								kind = "CfgFresh"
							case nil:
								if !isParam(p, fd, vo) {
									kind = "CfgFresh" // var x T
								}
							}
						}
					}
				}
				*out = append(*out, authSite{name, exprText(arg), kind})
				return true
			})
		}
	}
}

type hookSite struct{ fn, field, rhs, kind string }

// isCfgHookType: func(...) *security.SecurityConfig
func isCfgHookType(t types.Type) bool {
	sig, ok := t.Underlying().(*types.Signature)
	if !ok || sig.Results().Len() != 1 {
		return false
	}
	return sig.Results().At(0).Type().String() == "*"+modPath+"/security.SecurityConfig"
}

// hookKind classifies what is installed as a config-returning hook of an
// Authenticator: a function literal each of whose returns is nil or the address
// of a local copy (`c := *cfg; return &c`) / fresh literal is HookCopy; a nil
// is HookNil; anything else (a method value, a caller-supplied func, a literal
// that returns a pointer it did not create) is HookShared.
func hookKind(p *loadedPkg, fd *ast.FuncDecl, rhs ast.Expr) string {
	rhs = ast.Unparen(rhs)
	if id, ok := rhs.(*ast.Ident); ok && id.Name == "nil" {
		return "HookNil"
	}
	lit, ok := rhs.(*ast.FuncLit)
	if !ok {
		return "HookShared"
	}
	okAll, any := true, false
	ast.Inspect(lit.Body, func(n ast.Node) bool {
		if inner, ok := n.(*ast.FuncLit); ok && inner != lit {
			return false
		}
		r, ok := n.(*ast.ReturnStmt)
		if !ok {
			return true
		}
		any = true
		if len(r.Results) != 1 {
			okAll = false
			return true
		}
		e := ast.Unparen(r.Results[0])
		if id, ok := e.(*ast.Ident); ok && id.Name == "nil" {
			return true
		}
		u, ok := e.(*ast.UnaryExpr)
		if !ok || u.Op != token.AND {
			okAll = false
			return true
		}
		switch x := ast.Unparen(u.X).(type) {
		case *ast.CompositeLit:
		case *ast.Ident:
			vo, ok := p.Info.Uses[x].(*types.Var)
			if !ok || vo.IsField() || vo.Parent() == p.Types.Scope() {
				okAll = false
				return true
			}
			def := localDef(p, fd, vo)
			switch ast.Unparen(def).(type) {
			case *ast.StarExpr, *ast.CompositeLit:
			default:
				okAll = false
			}
		default:
			okAll = false
		}
		return true
	})
	if okAll && any {
		return "HookCopy"
	}
	return "HookShared"
}

func hookSites(p *loadedPkg, out *[]hookSite) {
	for _, file := range p.Files {
		for _, d := range file.Decls {
			fd, ok := d.(*ast.FuncDecl)
			if !ok || fd.Body == nil {
				continue
			}
			name := funcKey(p, fd)
			ast.Inspect(fd.Body, func(n ast.Node) bool {
				switch v := n.(type) {
				case *ast.AssignStmt:
					for i, l := range v.Lhs {
						sel, ok := ast.Unparen(l).(*ast.SelectorExpr)
						if !ok {
							continue
						}
						s, ok := p.Info.Selections[sel]
						if !ok || s.Kind() != types.FieldVal || !isCfgHookType(s.Type()) {
							continue
						}
						nn := namedOf(s.Recv())
						if nn == nil || nn.Obj().Name() != "Authenticator" {
							continue
						}
						kind := "HookShared"
						rhs := "?"
						if len(v.Rhs) == len(v.Lhs) {
							kind = hookKind(p, fd, v.Rhs[i])
							rhs = exprText(v.Rhs[i])
						}
						*out = append(*out, hookSite{name, "Authenticator." + sel.Sel.Name, rhs, kind})
					}
				case *ast.CompositeLit:
					tv := p.Info.Types[v]
					nn := namedOf(tv.Type)
					if nn == nil || nn.Obj().Name() != "Authenticator" {
						return true
					}
					for _, el := range v.Elts {
						kv, ok := el.(*ast.KeyValueExpr)
						if !ok {
							continue
						}
						if tvv, ok := p.Info.Types[kv.Value]; ok && tvv.Type != nil && isCfgHookType(tvv.Type) {
							*out = append(*out, hookSite{name, "Authenticator." + exprText(kv.Key), exprText(kv.Value), hookKind(p, fd, kv.Value)})
						}
					}
				}
				return true
			})
		}
	}
}

func isParam(p *loadedPkg, fd *ast.FuncDecl, v *types.Var) bool {
	if fd.Type.Params != nil {
		for _, f := range fd.Type.Params.List {
			for _, n := range f.Names {
				if p.Info.Defs[n] == types.Object(v) {
					return true
				}
			}
		}
	}
	return false
}

func localDef(p *loadedPkg, fd *ast.FuncDecl, v *types.Var) ast.Expr {
	var rhs ast.Expr
	ast.Inspect(fd, func(n ast.Node) bool {
		as, ok := n.(*ast.AssignStmt)
		if !ok || as.Tok != token.DEFINE {
			return true
		}
		for i, l := range as.Lhs {
			if id, ok := l.(*ast.Ident); ok && p.Info.Defs[id] == types.Object(v) && len(as.Rhs) == len(as.Lhs) {
				rhs = as.Rhs[i]
			}
		}
		return true
	})
	return rhs
}

// ---- stream send/receive split --------------------------------------------

type sacc struct{ method, field, rw string }

var sendRoots = []string{"SendMessage", "SendPartialMessage", "WriteMessage", "StartMessage", "EndMessage", "WriteFrame", "PutFile",
	"PutSecret", "PrepareCryptoForSecret", "RestoreCryptoAfterSecret", "CryptoForSecretIsNoop", "IsEncrypted"} // the message layer toggles crypto for secret fields on both paths
var recvRoots = []string{"ReceiveFrame", "ReceiveFrameWithEnd", "ReadFrame", "ReceiveCompleteMessage", "StartMessageRead", "ReadMessageBytes", "EndMessageRead", "GetFile",
	"GetSecret", "PrepareCryptoForSecret", "RestoreCryptoAfterSecret", "IsEncrypted"}

func streamSplit(p *loadedPkg) (send, recv []sacc, sendM, recvM []string, err error) {
	methods := map[string]*ast.FuncDecl{}
	for _, file := range p.Files {
		for _, d := range file.Decls {
			if fd, ok := d.(*ast.FuncDecl); ok && fd.Body != nil && fd.Recv != nil && strings.HasPrefix(funcKey(p, fd), "stream.Stream.") {
				methods[fd.Name.Name] = fd
			}
		}
	}
	accs := map[string][]sacc{}
	calls := map[string][]string{}
	for name, fd := range methods {
		w := writeTargets(fd.Body)
		// nil-guarded set-once: `if s.F != nil { return }` as first statement
		onceField := ""
		if len(fd.Body.List) > 0 {
			if is, ok := fd.Body.List[0].(*ast.IfStmt); ok && is.Init == nil && len(is.Body.List) == 1 {
				if _, isRet := is.Body.List[0].(*ast.ReturnStmt); isRet {
					if be, ok := is.Cond.(*ast.BinaryExpr); ok && be.Op == token.NEQ {
						if id, ok := be.Y.(*ast.Ident); ok && id.Name == "nil" {
							if sel, ok := be.X.(*ast.SelectorExpr); ok {
								onceField = sel.Sel.Name
							}
						}
					}
				}
			}
		}
		// accesses that can only happen before a handshake digest is finalised:
		// everything after a leading `if s.F != nil { return }` guard, and everything
		// inside an `if` whose condition requires `s.F == nil`
		preRanges := [][2]token.Pos{}
		if onceField != "" {
			preRanges = append(preRanges, [2]token.Pos{fd.Body.List[0].End(), fd.Body.End()})
		}
		ast.Inspect(fd.Body, func(n ast.Node) bool {
			if is, ok := n.(*ast.IfStmt); ok {
				nilReq := false
				ast.Inspect(is.Cond, func(x ast.Node) bool {
					if be, ok := x.(*ast.BinaryExpr); ok && be.Op == token.EQL {
						if id, ok := be.Y.(*ast.Ident); ok && id.Name == "nil" {
							if sel, ok := be.X.(*ast.SelectorExpr); ok && strings.HasPrefix(sel.Sel.Name, "final") {
								nilReq = true
							}
						}
					}
					return true
				})
				if nilReq {
					preRanges = append(preRanges, [2]token.Pos{is.Body.Pos(), is.Body.End()})
				}
			}
			return true
		})
		// accesses that only happen in the key-present / encryption-off mode, where the
		// crypto-for-secret toggle really switches the (single, per-stream) encryption flag:
		// inside `if ... !s.encrypted ...` of the toggle or `if s.cryptoToggledForSecret`
		modeRanges := [][2]token.Pos{}
		if strings.Contains(strings.ToLower(name), "secret") {
			ast.Inspect(fd.Body, func(n ast.Node) bool {
				if is, ok := n.(*ast.IfStmt); ok {
					txt := ""
					ast.Inspect(is.Cond, func(x ast.Node) bool {
						switch v := x.(type) {
						case *ast.UnaryExpr:
							if v.Op == token.NOT {
								txt += "!" + exprText(v.X) + " "
							}
						case *ast.SelectorExpr:
							txt += exprText(v) + " "
						}
						return true
					})
					if strings.Contains(txt, "!s.encrypted") || strings.Contains(txt, "s.cryptoToggledForSecret") {
						modeRanges = append(modeRanges, [2]token.Pos{is.Body.Pos(), is.Body.End()})
					}
				}
				return true
			})
		}
		isMode := func(pos token.Pos) bool {
			for _, r := range modeRanges {
				if pos >= r[0] && pos < r[1] {
					return true
				}
			}
			return false
		}
		isPre := func(pos token.Pos) bool {
			for _, r := range preRanges {
				if pos >= r[0] && pos < r[1] {
					return true
				}
			}
			return false
		}
		ast.Inspect(fd.Body, func(n ast.Node) bool {
			switch v := n.(type) {
			case *ast.SelectorExpr:
				s, ok := p.Info.Selections[v]
				if !ok {
					return true
				}
				nn := namedOf(s.Recv())
				if nn == nil || nn.Obj().Name() != "Stream" {
					return true
				}
				if s.Kind() == types.FieldVal {
					rw := "R"
					if w[v] {
						rw = "W"
					}
					if rw == "W" && v.Sel.Name == onceField {
						rw = "WOnce"
					} else if isPre(v.Pos()) {
						rw = "Pre" + rw
					} else if isMode(v.Pos()) {
						rw = "Mode" + rw
					}
					accs[name] = append(accs[name], sacc{name, v.Sel.Name, rw})
				} else if s.Kind() == types.MethodVal {
					calls[name] = append(calls[name], v.Sel.Name)
				}
			}
			return true
		})
	}
	closure := func(roots []string) ([]sacc, []string, error) {
		seen := map[string]bool{}
		var order []string
		var visit func(m string)
		visit = func(m string) {
			if seen[m] || methods[m] == nil {
				return
			}
			seen[m] = true
			order = append(order, m)
			for _, c := range calls[m] {
				visit(c)
			}
		}
		for _, r := range roots {
			if methods[r] == nil {
				return nil, nil, fmt.Errorf("stream entry point %s not found", r)
			}
			visit(r)
		}
		sort.Strings(order)
		set := map[sacc]bool{}
		var out []sacc
		for _, m := range order {
			for _, a := range accs[m] {
				k := sacc{"", a.field, a.rw}
				if !set[k] {
					set[k] = true
					out = append(out, sacc{m, a.field, a.rw})
				}
			}
		}
		return out, order, nil
	}
	send, sendM, err = closure(sendRoots)
	if err != nil {
		return
	}
	recv, recvM, err = closure(recvRoots)
	return
}

// keyInstallers: every function of package stream that installs a cipher (writes
// Stream.gcm) - from then on the stream may carry protected frames in both
// directions at once - together with whether it also freezes BOTH handshake digests
// (calls finalizeSendDigest and finalizeRecvDigest, directly or through
// FinalizeDigests, or assigns finalSendDigest and finalRecvDigest). The steady-state
// disjointness of the send and receive paths rests on that.
type keyInstaller struct {
	fn         string
	send, recv bool
}

func keyInstallers(p *loadedPkg) []keyInstaller {
	var out []keyInstaller
	for _, file := range p.Files {
		for _, d := range file.Decls {
			fd, ok := d.(*ast.FuncDecl)
			if !ok || fd.Body == nil {
				continue
			}
			w := writeTargets(fd.Body)
			installs, send, recv := false, false, false
			ast.Inspect(fd.Body, func(n ast.Node) bool {
				sel, ok := n.(*ast.SelectorExpr)
				if !ok {
					return true
				}
				s, ok := p.Info.Selections[sel]
				if !ok {
					return true
				}
				nn := namedOf(s.Recv())
				if nn == nil || nn.Obj().Name() != "Stream" {
					return true
				}
				switch s.Kind() {
				case types.FieldVal:
					if w[sel] {
						switch sel.Sel.Name {
						case "gcm":
							installs = true
						case "finalSendDigest":
							send = true
						case "finalRecvDigest":
							recv = true
						}
					}
				case types.MethodVal:
					switch sel.Sel.Name {
					case "finalizeSendDigest":
						send = true
					case "finalizeRecvDigest":
						recv = true
					case "FinalizeDigests":
						send, recv = true, true
					}
				}
				return true
			})
			if installs {
				out = append(out, keyInstaller{funcKey(p, fd), send, recv})
			}
		}
	}
	return out
}

// storePurge describes how SessionCache.Store guards its purge of the command
// mappings that point at the stored id: whether there is such a purge (a delete on
// commandMap inside Store), and whether the guarding condition(s) consult the
// PRESENCE of an old entry (comma-ok map read, len, nil test of the old value)
// rather than only its identity against the stored entry.
type storePurge struct{ present, presenceGuard, identityGuard bool }

func storePurgeFact(p *loadedPkg) storePurge {
	var out storePurge
	for _, file := range p.Files {
		for _, d := range file.Decls {
			fd, ok := d.(*ast.FuncDecl)
			if !ok || fd.Body == nil || funcKey(p, fd) != "security.SessionCache.Store" {
				continue
			}
			par := map[ast.Node]ast.Node{}
			var stack []ast.Node
			ast.Inspect(fd.Body, func(n ast.Node) bool {
				if n == nil {
					stack = stack[:len(stack)-1]
					return true
				}
				if len(stack) > 0 {
					par[n] = stack[len(stack)-1]
				}
				stack = append(stack, n)
				return true
			})
			ast.Inspect(fd.Body, func(n ast.Node) bool {
				call, ok := n.(*ast.CallExpr)
				if !ok {
					return true
				}
				id, ok := call.Fun.(*ast.Ident)
				if !ok || id.Name != "delete" || len(call.Args) == 0 || !strings.HasSuffix(exprText(call.Args[0]), ".commandMap") {
					return true
				}
				out.present = true
				// every enclosing if (other than the per-mapping `sessID == entry.id` test inside the range)
				for q := par[ast.Node(call)]; q != nil; q = par[q] {
					is, ok := q.(*ast.IfStmt)
					if !ok {
						continue
					}
					okNames := map[string]bool{}
					if as, ok := is.Init.(*ast.AssignStmt); ok && len(as.Lhs) == 2 {
						if nm, ok := as.Lhs[1].(*ast.Ident); ok {
							okNames[nm.Name] = true // comma-ok presence flag
						}
					}
					ast.Inspect(is.Cond, func(x ast.Node) bool {
						switch v := x.(type) {
						case *ast.Ident:
							if okNames[v.Name] || v.Name == "nil" {
								out.presenceGuard = true
							}
						case *ast.CallExpr:
							if f, ok := v.Fun.(*ast.Ident); ok && f.Name == "len" {
								out.presenceGuard = true
							}
						case *ast.BinaryExpr:
							if v.Op == token.NEQ && (exprText(v.X) == "entry" || exprText(v.Y) == "entry") {
								out.identityGuard = true
							}
						}
						return true
					})
				}
				return true
			})
		}
	}
	return out
}

// ---- broker stream I/O -----------------------------------------------------

type brokerIO struct {
	fn, callee, origin string
	held               []lockHeld
}

func brokerWalk(p *loadedPkg, out *[]brokerIO) {
	for _, file := range p.Files {
		for _, d := range file.Decls {
			fd, ok := d.(*ast.FuncDecl)
			if !ok || fd.Body == nil || !strings.HasPrefix(funcKey(p, fd), "ccb.brokerReg.") {
				continue
			}
			name := funcKey(p, fd)
			var accs []access
			// reuse the lock walk to know the held set at each call: walk calls in order
			var held []lockHeld
			deferred := map[*ast.CallExpr]bool{}
			ast.Inspect(fd.Body, func(n ast.Node) bool {
				switch v := n.(type) {
				case *ast.FuncLit:
					return false
				case *ast.DeferStmt:
					deferred[v.Call] = true
				case *ast.CallExpr:
					if sel, ok := v.Fun.(*ast.SelectorExpr); ok {
						if inner, ok := ast.Unparen(sel.X).(*ast.SelectorExpr); ok {
							if s, ok := p.Info.Selections[inner]; ok && s.Kind() == types.FieldVal && (s.Type().String() == "sync.Mutex" || s.Type().String() == "sync.RWMutex") {
								lk := lockHeld{"brokerReg." + inner.Sel.Name, exprText(inner.X), "MW"}
								switch sel.Sel.Name {
								case "Lock":
									held = append(held, lk)
								case "Unlock":
									if !deferred[v] {
										for i := len(held) - 1; i >= 0; i-- {
											if held[i].name == lk.name {
												held = append(held[:i:i], held[i+1:]...)
												break
											}
										}
									}
								}
							}
						}
					}
					if id, ok := v.Fun.(*ast.Ident); ok && (id.Name == "WriteControlAd" || id.Name == "ReadControlAd") && len(v.Args) >= 2 {
						origin := "SLocal"
						arg := ast.Unparen(v.Args[1])
						if exprText(arg) == "r.stream" {
							origin = "SField"
						} else if aid, ok := arg.(*ast.Ident); ok {
							if vo, ok := p.Info.Uses[aid].(*types.Var); ok {
								if def := localDef(p, fd, vo); def != nil && exprText(def) == "r.stream" {
									origin = "SField"
								}
							}
						}
						*out = append(*out, brokerIO{name, id.Name, origin, append([]lockHeld(nil), held...)})
					}
				}
				return true
			})
			_ = accs
		}
	}
}

// ---- output ---------------------------------------------------------------

func coqStr(s string) string { return `"` + strings.ReplaceAll(s, `"`, `""`) + `"` }

func heldTerm(h []lockHeld) string {
	var xs []string
	for _, l := range h {
		xs = append(xs, fmt.Sprintf("(%s, %s, %s)", coqStr(l.name), coqStr(l.base), l.mode))
	}
	return "[" + strings.Join(xs, "; ") + "]"
}

func libPackages() ([]string, error) {
	// library packages whose NewAuthenticator call sites matter (not cmd/, examples/, internal/)
	return []string{"security", "client", "server", "ccb", "stream", "message"}, nil
}

func factsC17(b *strings.Builder) error {
	fset := token.NewFileSet()
	subs, _ := libPackages()
	pk, err := loadPkgs(fset, subs)
	if err != nil {
		return err
	}
	sec, ccb, str := pk["security"], pk["ccb"], pk["stream"]
	var accs []access
	var css []csFact
	var vfs []varFact
	var cops []counterOps
	vars := map[types.Object]bool{}
	for i, file := range sec.Files {
		if sec.Names[i] != "session_manager.go" {
			continue
		}
		for _, d := range file.Decls {
			if gd, ok := d.(*ast.GenDecl); ok && gd.Tok == token.VAR {
				for _, sp := range gd.Specs {
					for _, n := range sp.(*ast.ValueSpec).Names {
						if o := sec.Info.Defs[n]; o != nil && o.Type().String() != "sync.Once" {
							vars[o] = true
						}
					}
				}
			}
		}
	}
	for _, file := range sec.Files {
		for _, d := range file.Decls {
			fd, ok := d.(*ast.FuncDecl)
			if !ok || fd.Body == nil {
				continue
			}
			lockWalk(sec, funcKey(sec, fd), fd.Body, map[string]bool{"SessionCache": true, "SessionEntry": true}, &accs)
			csWalk(sec, funcKey(sec, fd), fd.Body, map[string]bool{"SessionCache": true}, &css)
			varWalk(sec, funcKey(sec, fd), fd, vars, &vfs, &cops)
		}
	}
	nCache := len(accs)
	for _, file := range ccb.Files {
		for _, d := range file.Decls {
			fd, ok := d.(*ast.FuncDecl)
			if !ok || fd.Body == nil {
				continue
			}
			lockWalk(ccb, funcKey(ccb, fd), fd.Body, map[string]bool{"brokerReg": true}, &accs)
		}
	}
	if nCache == 0 || len(accs) == nCache {
		return fmt.Errorf("no SessionCache/SessionEntry or brokerReg field access found: the anchored code moved")
	}
	var sites []authSite
	for _, s := range []string{"security", "client", "server", "ccb"} {
		authSites(pk[s], &sites)
	}
	if len(sites) == 0 {
		return fmt.Errorf("no call site of security.NewAuthenticator found")
	}
	var hooks []hookSite
	for _, s := range []string{"security", "client", "server", "ccb"} {
		hookSites(pk[s], &hooks)
	}
	var bio []brokerIO
	brokerWalk(ccb, &bio)
	send, recv, sendM, recvM, err := streamSplit(str)
	if err != nil {
		return err
	}
	b.WriteString("(* GENERATED by harness/cmd/vh-c17 facts from /repo's current source. Do not edit. *)\n")
	b.WriteString("From Coq Require Import List String.\nFrom Cedar Require Import Model.Lockset Model.LocksetFacts.\nImport ListNotations.\nLocal Open Scope string_scope.\n\n")
	b.WriteString("Definition lock_facts : list lock_fact := [\n")
	for i, a := range accs {
		sep := ";"
		if i == len(accs)-1 {
			sep = ""
		}
		fmt.Fprintf(b, "  mk_lf %s %s A%s %s %s%s\n", coqStr(a.fn), coqStr(a.field), a.rw, coqStr(a.base), heldTerm(a.held), sep)
	}
	b.WriteString("].\n\nDefinition cs_facts : list cs_fact := [\n")
	for i, c := range css {
		sep := ";"
		if i == len(css)-1 {
			sep = ""
		}
		fmt.Fprintf(b, "  mk_cs %s %s %d %s%s\n", coqStr(c.fn), coqStr(c.lock), c.regions, map[bool]string{true: "true", false: "false"}[c.writes], sep)
	}
	b.WriteString("].\n\nDefinition var_facts : list var_fact := [\n")
	for i, v := range vfs {
		sep := ";"
		if i == len(vfs)-1 {
			sep = ""
		}
		fmt.Fprintf(b, "  mk_vf %s %s A%s %s%s\n", coqStr(v.fn), coqStr(v.v), v.rw, v.kind, sep)
	}
	b.WriteString("].\n\nDefinition counter_progs : list counter_prog := [\n")
	for i, c := range cops {
		sep := ";"
		if i == len(cops)-1 {
			sep = ""
		}
		fmt.Fprintf(b, "  mk_cp %s %s [%s]%s\n", coqStr(c.fn), coqStr(c.v), strings.Join(c.ops, "; "), sep)
	}
	b.WriteString("].\n\nDefinition slice_muts : list slice_mut := [\n")
	var sms []sliceMut
	for _, sp := range []string{"security", "client", "server", "ccb"} {
		sliceMuts(pk[sp], &sms)
	}
	for i, m := range sms {
		sep := ";"
		if i == len(sms)-1 {
			sep = ""
		}
		fmt.Fprintf(b, "  mk_sm %s %s %s%s\n", coqStr(m.fn), coqStr(m.what), coqStr(m.base), sep)
	}
	b.WriteString("].\n\nDefinition auth_sites : list auth_site := [\n")
	for i, s := range sites {
		sep := ";"
		if i == len(sites)-1 {
			sep = ""
		}
		fmt.Fprintf(b, "  mk_as %s %s %s%s\n", coqStr(s.fn), coqStr(s.arg), s.kind, sep)
	}
	b.WriteString("].\n\nDefinition hook_sites : list hook_site := [\n")
	for i, h := range hooks {
		sep := ";"
		if i == len(hooks)-1 {
			sep = ""
		}
		fmt.Fprintf(b, "  mk_hs %s %s %s %s%s\n", coqStr(h.fn), coqStr(h.field), coqStr(h.rhs), h.kind, sep)
	}
	b.WriteString("].\n\nDefinition broker_io : list broker_fact := [\n")
	for i, s := range bio {
		sep := ";"
		if i == len(bio)-1 {
			sep = ""
		}
		fmt.Fprintf(b, "  mk_bf %s %s %s %s%s\n", coqStr(s.fn), coqStr(s.callee), s.origin, heldTerm(s.held), sep)
	}
	b.WriteString("].\n\n")
	emit := func(name string, xs []sacc) {
		fmt.Fprintf(b, "Definition %s : list stream_acc := [\n", name)
		for i, a := range xs {
			sep := ";"
			if i == len(xs)-1 {
				sep = ""
			}
			fmt.Fprintf(b, "  mk_sa %s %s S%s%s\n", coqStr(a.method), coqStr(a.field), a.rw, sep)
		}
		b.WriteString("].\n")
	}
	sp := storePurgeFact(sec)
	fmt.Fprintf(b, "Definition store_purge : store_purge_fact := mk_sp %v %v %v.\n\n", sp.present, sp.presenceGuard, sp.identityGuard)
	b.WriteString("Definition key_installers : list key_installer := [\n")
	kis := keyInstallers(str)
	for i, k := range kis {
		sep := ";"
		if i == len(kis)-1 {
			sep = ""
		}
		fmt.Fprintf(b, "  mk_ki %s %v %v%s\n", coqStr(k.fn), k.send, k.recv, sep)
	}
	b.WriteString("].\n")
	emit("stream_send", send)
	emit("stream_recv", recv)
	strs := func(xs []string) string {
		var q []string
		for _, x := range xs {
			q = append(q, coqStr(x))
		}
		return "[" + strings.Join(q, "; ") + "]"
	}
	fmt.Fprintf(b, "Definition stream_send_methods : list string := %s.\nDefinition stream_recv_methods : list string := %s.\n", strs(sendM), strs(recvM))
	return nil
}
