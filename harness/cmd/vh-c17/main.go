// vh-c17: facts translator + race-detector harness for C17 (shared state is safe
// under concurrency).
//
//	vh-c17 facts FILE   regenerate coq/gen/FactsC17.v from /repo's source
//	vh-c17 gen ...      build harness/c17race with `go build -race` against /repo and run
//	                    its stress scenarios (random cache operations on overlapping keys
//	                    incl. InvalidateExpired/DebugDump/RenewLease; many client
//	                    connections, fresh and resuming, sharing ONE configuration object and
//	                    one cache against one server; one SecurityManager shared;
//	                    simultaneous send/receive on established streams) under several
//	                    GOMAXPROCS values; oracle = race reports + quiescence post-conditions.
package main

import (
	"bytes"
	"crypto/sha1"
	"encoding/hex"
	"encoding/json"
	"fmt"
	"os"
	"os/exec"
	"path/filepath"
	"regexp"
	"strings"
	"sync"
	"time"

	"verifharness/core"
)

type scen struct {
	Name    string `json:"scenario"`
	Procs   int    `json:"gomaxprocs"`
	Seed    int64  `json:"seed"`
	Workers int    `json:"workers"`
	Iters   int    `json:"iterations"`
}

type outcome struct {
	Races        int      `json:"races"`
	Keys         []string `json:"race_keys"`
	First        string   `json:"first_report,omitempty"`
	PostOK       bool     `json:"post_ok"`
	Problems     []string `json:"problems,omitempty"`
	Ops          int      `json:"ops"`
	Crashed      string   `json:"crashed,omitempty"`
	Inconclusive string   `json:"inconclusive,omitempty"`
}

func verifRoot() string {
	if exe, err := os.Executable(); err == nil {
		return filepath.Dir(filepath.Dir(exe)) // <root>/build/vh-c17
	}
	return "/verif"
}

// buildRace builds harness/c17race with the race detector against the repo under test.
func buildRace() (string, error) {
	root := verifRoot()
	if _, err := os.Stat(filepath.Join(root, "harness", "c17race")); err != nil {
		root = "/verif"
	}
	repo := repoDir()
	sum := sha1.Sum([]byte(repo))
	tag := hex.EncodeToString(sum[:])[:8]
	build := filepath.Join(root, "build")
	_ = os.MkdirAll(build, 0o755)
	modfile := filepath.Join(build, "go-c17race-"+tag+".mod")
	gm, err := os.ReadFile(filepath.Join(root, "harness", "go.mod"))
	if err != nil {
		return "", err
	}
	txt := regexp.MustCompile(`replace github.com/bbockelm/cedar => \S+`).ReplaceAllString(string(gm), "replace github.com/bbockelm/cedar => "+repo)
	if old, _ := os.ReadFile(modfile); string(old) != txt {
		if err := os.WriteFile(modfile, []byte(txt), 0o644); err != nil {
			return "", err
		}
	}
	if gs, err := os.ReadFile(filepath.Join(repo, "go.sum")); err == nil {
		_ = os.WriteFile(strings.TrimSuffix(modfile, ".mod")+".sum", gs, 0o644)
	}
	bin := filepath.Join(build, "c17race-"+tag)
	cmd := exec.Command("go", "build", "-race", "-modfile", modfile, "-tags", "verif", "-o", bin, "./c17race")
	cmd.Dir = filepath.Join(root, "harness")
	cmd.Env = append(os.Environ(), "GOFLAGS=-mod=mod", "GOPROXY=off", "CGO_ENABLED=1")
	if out, err := cmd.CombinedOutput(); err != nil {
		return "", fmt.Errorf("go build -race failed: %v\n%s", err, out)
	}
	return bin, nil
}

var raceSplit = regexp.MustCompile(`(?m)^==================\n`)

func classify(report string) string {
	has := func(s string) bool { return strings.Contains(report, s) }
	switch {
	case (has("InvalidateExpired") || has("DebugDump")) && has("SessionEntry"):
		return "race-entry-expiration"
	case has("negotiateSecurity") && !has("SessionCache") && !has("SessionEntry"):
		return "race-shared-config-slice"
	case has("ServerHandshakeWithMessage") && !has("SessionCache") && !has("SessionEntry"):
		return "race-shared-percommand-config"
	case has("security.NewAuthenticator") && has("SecurityManager"):
		return "race-shared-config-secman"
	case has("security.NewAuthenticator") && has("client.ConnectAndAuthenticateWithConfig"):
		return "race-shared-config-client"
	case has("security.NewAuthenticator"):
		return "race-shared-config"
	case has("cedar/stream.(*Stream)"):
		return "race-stream"
	case has("cedar/security.(*SessionCache)") || has("cedar/security.(*SessionEntry)"):
		return "race-session-cache"
	case has("cedar/"):
		return "race-cedar-other"
	}
	return "race-harness"
}

func runScen(bin string, s scen) outcome {
	cmd := exec.Command(bin, s.Name, fmt.Sprint(s.Seed), fmt.Sprint(s.Workers), fmt.Sprint(s.Iters))
	cmd.Env = append(os.Environ(), fmt.Sprintf("GOMAXPROCS=%d", s.Procs), "GORACE=halt_on_error=0 history_size=2")
	var stdout, stderr bytes.Buffer
	cmd.Stdout, cmd.Stderr = &stdout, &stderr
	done := make(chan error, 1)
	if err := cmd.Start(); err != nil {
		return outcome{Crashed: err.Error()}
	}
	go func() { done <- cmd.Wait() }()
	var o outcome
	select {
	case <-done:
	case <-time.After(20 * time.Minute):
		// the scenario process has its own progress-based deadlock detection and a
		// 12 min cap; getting here means it is wedged beyond that: not a verdict on /repo
		_ = cmd.Process.Kill()
		<-done
		o.Inconclusive = "scenario process killed after 20 min"
		o.PostOK = true
		return o
	}
	seen := map[string]bool{}
	for _, rep := range raceSplit.Split(stderr.String(), -1) {
		if !strings.Contains(rep, "WARNING: DATA RACE") {
			continue
		}
		o.Races++
		k := classify(rep)
		if !seen[k] {
			seen[k] = true
			o.Keys = append(o.Keys, k)
		}
		if o.First == "" {
			lines := strings.Split(rep, "\n")
			var keep []string
			for _, l := range lines {
				t := strings.TrimSpace(l)
				if strings.HasPrefix(t, "github.com/bbockelm/cedar") || strings.HasPrefix(t, "Read at") || strings.HasPrefix(t, "Write at") || strings.HasPrefix(t, "Previous") {
					keep = append(keep, t)
				}
				if len(keep) >= 8 {
					break
				}
			}
			o.First = strings.Join(keep, " | ")
		}
	}
	var res struct {
		Inconclusive string   `json:"inconclusive"`
		PostOK       bool     `json:"post_ok"`
		Problems     []string `json:"problems"`
		Ops          int      `json:"ops"`
	}
	line := strings.TrimSpace(stdout.String())
	if i := strings.LastIndex(line, "\n"); i >= 0 {
		line = line[i+1:]
	}
	if err := json.Unmarshal([]byte(line), &res); err != nil {
		if o.Crashed == "" {
			tail := stderr.String()
			if len(tail) > 400 {
				tail = tail[len(tail)-400:]
			}
			o.Crashed = "no result line (panic / fatal error?): " + tail
		}
		return o
	}
	o.PostOK, o.Problems, o.Ops, o.Inconclusive = res.PostOK, res.Problems, res.Ops, res.Inconclusive
	for i, p := range o.Problems {
		if len(p) > 200 {
			o.Problems[i] = p[:200]
		}
	}
	return o
}

func scenTerm(n string) string {
	switch n {
	case "cache-basic":
		return "ScCacheBasic"
	case "cache-maint":
		return "ScCacheMaint"
	case "client-shared-config":
		return "ScClientShared"
	case "secman-shared-config":
		return "ScSecmanShared"
	case "percommand-shared-config":
		return "ScPerCommand"
	case "cache-atomicity":
		return "ScCacheAtomic"
	case "session-ids":
		return "ScSessionIDs"
	case "fresh-key-duplex":
		return "ScFreshKeyDuplex"
	case "cache-route":
		return "ScCacheRoute"
	case "secret-duplex":
		return "ScSecretDuplex"
	case "mixed-policy-resume":
		return "ScMixedResume"
	}
	return "ScStreamDuplex"
}

func judge(c *core.Ctx, s scen, o outcome) {
	c.OracleCheck()
	if o.Crashed != "" {
		c.OracleFail("crash-"+s.Name, s.Name+": "+o.Crashed, s)
		return
	}
	for _, k := range o.Keys {
		if k == "race-harness" {
			c.Note("race report inside the harness itself (ignored): " + o.First)
			continue
		}
		c.OracleFail(k, fmt.Sprintf("%s (GOMAXPROCS=%d, seed %d): %d data race report(s), e.g. %s", s.Name, s.Procs, s.Seed, o.Races, o.First), s)
	}
	if !o.PostOK {
		key := "post-" + s.Name
		c.OracleFail(key, fmt.Sprintf("%s (GOMAXPROCS=%d, seed %d): post-condition failed: %s", s.Name, s.Procs, s.Seed, strings.Join(o.Problems, "; ")), s)
	}
}

func gen(c *core.Ctx) error {
	c.Rule("harness/c17race is built with `go build -race` against the repository under test and run per (scenario, GOMAXPROCS, seed): cache-basic / cache-maint = 8 goroutines x N random operations (Store, Lookup*, MapCommand, Invalidate, Snapshot, Size, RenewLease, setters; maint adds InvalidateExpired and DebugDump) on 12 overlapping ids with injected yields, then concurrent invalidation and the quiescence post-conditions (an invalidated id is unreachable by Lookup, LookupNonExpired, LookupByCommand and Snapshot; Size = |Snapshot|); client-shared-config = rounds of simultaneous client.ConnectAndAuthenticateWithConfig calls (fresh, then resuming the shared session) sharing ONE SecurityConfig and ONE cache against one server.Server over TCP loopback, each verified by a reply over its encrypted stream; secman-shared-config = one SecurityManager used by many handshakes; percommand-shared-config = a server whose SecurityConfigForCommand returns one shared config object and 12 x 8 overlapping fresh handshakes for that command, all of which must succeed; session-ids = 16 goroutines x 20000 calls of security.GetNextSessionCounter (plus GenerateSessionID) at GOMAXPROCS 4/8/16: every value handed out exactly once, increasing per caller; the handshake scenarios also require pairwise distinct session ids and that the caller's shared SecurityConfig objects (client side, server side - listing the unimplemented PASSWORD method first - and per-command) are deeply unchanged afterwards; cache-atomicity = 4 owner goroutines replacing an expired entry by a fresh one / renewing and re-storing an entry just past its expiry, 2500 times each on their own ids, while 3 goroutines sweep continuously (InvalidateExpired, LookupNonExpired): the live entry must be found right afterwards and at quiescence (no lost update); cache-route = 4 owners x 3000 registrations (Store, then MapCommand) on their own ids while 2 goroutines invalidate those ids continuously, each followed by a Store of a different entry under the id: a lookup by the old command key must not return the later session; secret-duplex = writer and reader goroutine on both ends of AES streams exchanging ads whose private attribute arrives in the legacy SECRET_MARKER + put_secret form (the crypto-for-secret toggle on the receive path must not touch what the send path reads); fresh-key-duplex = 4 x 60 stream pairs keyed directly with SetSymmetricKey after a cleartext prologue (as a resumed session is), then writer and reader goroutines started together on both endpoints so that the first protected send and the first protected receive overlap; mixed-policy-resume = clients of DIFFERENT local policies sharing one cache and one cached (unauthenticated) session for the same peer/command: 4 rounds of 8 simultaneous connections over in-memory pipes, half with Authentication=OPTIONAL (resume), half with Authentication=REQUIRED (the peer accepts the resumption, checkResumedSession then refuses it locally), overlapping; every handshake that reported success must exchange a message over its stream and the key bytes of the cached entry (snapshot through the exported KeyInfo().Data) must be unchanged, at least one resumption and one refusal must occur; stream-duplex = one goroutine sending while another receives on each end of established AES streams. Oracle: race detector reports (classified by the frames involved) and post-conditions. non-trivial = a run that executed operations; distinct by (scenario, GOMAXPROCS, seed)")
	c.Assume("the Go race detector's happens-before analysis (dynamic, schedule dependent) stands in for the memory model; absence of a report is not a proof")
	c.Assume("stream send/receive independence holds after both handshake digests are finalised (SetSymmetricKey / FinalizeDigests), which the handshake does before returning")
	bin, err := buildRace()
	if err != nil {
		return err
	}
	procs := []int{2, 4, 8}
	rounds := 1
	if !c.Quick() {
		procs = []int{1, 2, 3, 4, 8, 16}
		rounds = 3
	}
	var jobs []scen
	for r := 0; r < rounds; r++ {
		for _, p := range procs {
			seed := c.Rng.Int63n(1 << 30)
			atomIters := 2500
			if p == 1 {
				atomIters = 600 // one processor shared by owners and sweepers under the race detector
			}
			jobs = append(jobs,
				scen{"cache-basic", p, seed, 8, 500},
				scen{"cache-maint", p, seed + 1, 8, 500},
				scen{"client-shared-config", p, seed + 2, 8, 3},
				scen{"secman-shared-config", p, seed + 3, 6, 6},
				scen{"percommand-shared-config", p, seed + 5, 12, 8},
				scen{"cache-atomicity", p, seed + 6, 4, atomIters},
				scen{"session-ids", 2 * p, seed + 7, 16, 20000},
				scen{"fresh-key-duplex", p, seed + 8, 4, 60},
				scen{"cache-route", p, seed + 9, 4, 3000},
				scen{"secret-duplex", p, seed + 10, 3, 120},
				scen{"mixed-policy-resume", p, seed + 11, 8, 4},
				scen{"stream-duplex", p, seed + 4, 3, 120})
		}
	}
	outs := make([]outcome, len(jobs))
	sem := make(chan struct{}, 4)
	var wg sync.WaitGroup
	for i := range jobs {
		wg.Add(1)
		sem <- struct{}{}
		go func(i int) {
			defer wg.Done()
			defer func() { <-sem }()
			outs[i] = runScen(bin, jobs[i])
			if outs[i].Inconclusive != "" && outs[i].Races == 0 && outs[i].PostOK {
				// too slow on this machine right now: one more try with a quarter of the work
				j := jobs[i]
				j.Iters = (j.Iters + 3) / 4
				if o2 := runScen(bin, j); o2.Inconclusive == "" {
					jobs[i], outs[i] = j, o2
				}
			}
		}(i)
	}
	wg.Wait()
	for i, s := range jobs {
		o := outs[i]
		c.Count("scenario:" + s.Name)
		if o.Inconclusive != "" {
			c.Count("inconclusive")
			c.Note(fmt.Sprintf("%s (GOMAXPROCS=%d): inconclusive, not judged: %s", s.Name, s.Procs, o.Inconclusive))
		}
		c.CountN("operations:"+s.Name, o.Ops)
		c.CountN("race-reports:"+s.Name, o.Races)
		if o.Ops > 0 {
			c.Nontrivial(fmt.Sprintf("%s|%d|%d", s.Name, s.Procs, s.Seed))
		}
		if i < 11 {
			c.Sample(map[string]interface{}{"run": s, "observed": o})
		}
		judge(c, s, o)
		c.AddCase(fmt.Sprintf("CScen %s %s %s %s %s", scenTerm(s.Name), core.Nat(s.Procs), core.Nat(s.Workers), core.Nat(o.Races), core.Bool(o.PostOK && o.Crashed == "")),
			map[string]interface{}{"run": s, "observed": o})
	}
	return nil
}

func replay(raw json.RawMessage) error {
	var s scen
	if err := json.Unmarshal(raw, &s); err != nil || s.Name == "" {
		var wrap struct {
			Run scen `json:"run"`
		}
		if err := json.Unmarshal(raw, &wrap); err != nil || wrap.Run.Name == "" {
			return fmt.Errorf("not a C17 case: %s", string(raw))
		}
		s = wrap.Run
	}
	bin, err := buildRace()
	if err != nil {
		return err
	}
	// a race needs the right schedule: try a few times
	for try := 0; try < 5; try++ {
		o := runScen(bin, s)
		js, _ := json.Marshal(o)
		fmt.Println("observed:", string(js))
		if o.Crashed != "" || o.Races > 0 || !o.PostOK {
			return fmt.Errorf("%s: races=%d post_ok=%v %s %s", s.Name, o.Races, o.PostOK, o.First, strings.Join(o.Problems, "; "))
		}
		s.Seed++
	}
	return nil
}

func main() { core.MainWithFacts("C17", gen, replay, factsC17) }
