// Deviating (non-cedar) client peers for the real-server scenarios of vh-c05.
//
// cedar's own client closes the connection when it runs out of authentication
// methods, fails a method or is refused. A peer written against the wire protocol
// need not: it may end the method-selection loop with the give-up bitmask 0 and
// then carry on as if the handshake had gone through, select a method and fail or
// abandon it, send a malformed claim, ... and afterwards send follow-on commands
// on the kept-alive connection or reconnect and resume the session. The peer here
// is scripted through the public message/stream API and keeps a GHOST log of every
// authentication exchange it took part in and how it ended: that log, not anything
// the server reports, is the ground truth of "an authentication really completed
// on this session's original connection".
package main

import (
	"context"
	"crypto/ecdh"
	"crypto/rand"
	"encoding/base64"

	"verifharness/peer"

	"github.com/PelicanPlatform/classad/classad"
	"github.com/bbockelm/cedar/commands"
	"github.com/bbockelm/cedar/message"
	"github.com/bbockelm/cedar/security"
	"github.com/bbockelm/cedar/stream"
)

// MaskStep is one round of the method-selection loop as the peer plays it.
//
//	Mask  the bitmask the peer sends (0 = "no methods left")
//	Claim what the peer does when the server answers with CLAIMTOBE:
//	      ok       status 1 + "<name>@verif", read the acknowledgement and the key message
//	      empty    status 1 + "@verif" (an empty user name), as ok
//	      fail     status 0 (the client-side failure indicator)
//	      trail    status 1 + name + one more integer in the same message (malformed)
//	      status7  status 7 (neither the success nor the failure indicator)
//	      abort    hang up
type MaskStep struct {
	Mask  int64  `json:"mask"`
	Claim string `json:"claim,omitempty"`
}

// exch is one authentication exchange the scripted peer took part in (ghost).
type exch struct {
	Method string
	OK     bool // the server acknowledged it: the exchange completed successfully
}

func anyOK(x []exch) bool {
	for _, e := range x {
		if e.OK {
			return true
		}
	}
	return false
}

// deviantFull speaks a full handshake for sp.Cmds[0] and plays sp.Masks in the
// authentication phase. Whatever happens there, as long as the peer has not hung up
// itself it goes on as if the handshake had continued: it installs the session key
// it derives on its own (sp.Key == "good") and waits for the post-auth message. It
// only ever reads where the protocol has the server either write or close, so no
// script can make it wait for a timeout.
func (r *caseRun) deviantFull(ctx context.Context, st *stream.Stream, sp *ConnSpec) (res clientResult) {
	res.ghost = true
	ad := classad.New()
	_ = ad.Set("AuthMethods", "CLAIMTOBE")
	_ = ad.Set("CryptoMethods", "AES")
	_ = ad.Set("Authentication", sp.Authn)
	_ = ad.Set("Encryption", sp.Enc)
	_ = ad.Set("Integrity", "OPTIONAL")
	_ = ad.Set("Command", sp.Cmds[0])
	_ = ad.Set("RemoteVersion", security.DefaultRemoteVersion)
	_ = ad.Set("NegotiatedSession", true)
	_ = ad.Set("NewSession", "YES")
	_ = ad.Set("OutgoingNegotiation", "PREFERRED")
	_ = ad.Set("Enact", "NO")
	var priv *ecdh.PrivateKey
	switch sp.Key {
	case "good":
		k, err := ecdh.P256().GenerateKey(rand.Reader)
		if err != nil {
			return
		}
		priv = k
		_ = ad.Set("ECDHPublicKey", base64.StdEncoding.EncodeToString(k.PublicKey().Bytes()))
	case "bad":
		_ = ad.Set("ECDHPublicKey", "AAAAAAAAAAAAAAAAAAAAAAAAAAAAAAAAAAAAAAAAAAAAAAAAAAAAAAAAAAAAAAAAAAAAAAAAAAAAAAAAAAAAAAAAAAAAAA==")
	}
	if err := sendAd(ctx, st, commands.DC_AUTHENTICATE, ad); err != nil {
		return
	}
	sad, err := recvAd(ctx, st)
	if err != nil {
		return
	}
	if rc, ok := sad.EvaluateAttrString("ReturnCode"); ok && rc != "" && rc != "AUTHORIZED" {
		return
	}
	if a, _ := sad.EvaluateAttrString("Authentication"); a == "YES" {
		res.authPhase = true
		over := false // the peer regards the authentication phase as over
		for _, ms := range sp.Masks {
			m := message.NewMessageForStream(st)
			if m.PutInt64(ctx, ms.Mask) != nil || m.FinishMessage(ctx) != nil {
				return
			}
			if ms.Mask == 0 {
				over = true // gave up -- and stays on the line
				break
			}
			sel, err := message.NewMessageFromStream(st).GetInt64(ctx)
			if err != nil {
				return
			}
			if sel == 0 {
				continue // nothing in common in this mask: the server waits for the next one
			}
			if sel != security.AuthBitmaskClaimToBe {
				return // a method this peer does not speak: hang up
			}
			name := sp.Name
			cm := message.NewMessageForStream(st)
			switch ms.Claim {
			case "ok", "empty":
				if ms.Claim == "empty" {
					name = ""
				}
				_ = cm.PutInt(ctx, 1)
				_ = cm.PutString(ctx, name+"@verif")
				if cm.FinishMessage(ctx) != nil {
					return
				}
				ack, err := recvInt(ctx, st)
				if err != nil {
					res.exch = append(res.exch, exch{"CLAIMTOBE", false})
					return
				}
				res.exch = append(res.exch, exch{"CLAIMTOBE", ack == 1})
				if ack != 1 {
					continue
				}
				res.authReal, res.user = true, name
				if _, err := recvInt(ctx, st); err != nil { // exchangeKey: hasKey
					return
				}
				over = true
			case "fail":
				_ = cm.PutInt(ctx, 0)
				if cm.FinishMessage(ctx) != nil {
					return
				}
				res.exch = append(res.exch, exch{"CLAIMTOBE", false})
			case "trail":
				_ = cm.PutInt(ctx, 1)
				_ = cm.PutString(ctx, name+"@verif")
				_ = cm.PutInt(ctx, 7)
				if cm.FinishMessage(ctx) != nil {
					return
				}
				res.exch = append(res.exch, exch{"CLAIMTOBE", false})
			case "status7":
				_ = cm.PutInt(ctx, 7)
				if cm.FinishMessage(ctx) != nil {
					return
				}
				res.exch = append(res.exch, exch{"CLAIMTOBE", false})
			default: // abort
				res.exch = append(res.exch, exch{"CLAIMTOBE", false})
				return
			}
			if over {
				break
			}
		}
		if !over {
			return // script exhausted while the server waits for a bitmask: hang up
		}
	}
	// carry on as if the handshake continued
	if priv != nil {
		if spub, _ := sad.EvaluateAttrString("ECDHPublicKey"); spub != "" {
			if key, err := peer.DeriveKey(priv, spub); err == nil && st.SetSymmetricKey(key) == nil {
				res.encReal = true
			}
		}
	}
	pad, err := recvAd(ctx, st)
	if err != nil {
		res.encReal = false
		return
	}
	res.sid, _ = pad.EvaluateAttrString("Sid")
	res.hsOK = true
	return
}

// deviantScripts: the behaviours of the authentication phase that are run against
// every first command / level / key combination. real = an authentication exchange
// completes in it.
var deviantScripts = []struct {
	name  string
	masks []MaskStep
	real  bool
}{
	{"give-up", []MaskStep{{Mask: 0}}, false},
	{"no-common-then-give-up", []MaskStep{{Mask: 4}, {Mask: 1}, {Mask: 0}}, false},
	{"select-fail-give-up", []MaskStep{{Mask: 2, Claim: "fail"}, {Mask: 0}}, false},
	{"malformed-claim-give-up", []MaskStep{{Mask: 2, Claim: "trail"}, {Mask: 2, Claim: "status7"}, {Mask: 0}}, false},
	{"select-abandon", []MaskStep{{Mask: 2, Claim: "abort"}}, false},
	{"fail-then-hang-up", []MaskStep{{Mask: 2, Claim: "fail"}}, false},
	{"fail-then-ok", []MaskStep{{Mask: 2, Claim: "fail"}, {Mask: 0xffff, Claim: "ok"}}, true},
	{"ok", []MaskStep{{Mask: 2, Claim: "ok"}}, true},
	{"empty-name", []MaskStep{{Mask: 2, Claim: "empty"}}, true},
}
