// vh-c05: correspondence + direct oracle for C05 (the server runs a command
// only on a session that meets that command's policy).
//
// A real server.Server is driven over net.Pipe by scripted clients: the real
// client handshake code (security.Authenticator.ClientHandshake) where the
// client is honest, the public message/stream API where it deviates (omits or
// garbles its ECDH key, resumes by naming a session id only, sends a bare
// command integer). Handlers record Conn.Command, Conn.Negotiation and
// Conn.Stream.IsEncrypted(). Command sequences are enumerated as a tree (a
// sequence is extended only while every command in it was run).
package main

import (
	"context"
	"encoding/json"
	"errors"
	"fmt"
	"io"
	"log/slog"
	"math"
	"net"
	"os"
	"os/user"
	"sort"
	"strconv"
	"strings"
	"sync"
	"time"

	"verifharness/core"

	"github.com/PelicanPlatform/classad/classad"
	"github.com/bbockelm/cedar/commands"
	"github.com/bbockelm/cedar/message"
	"github.com/bbockelm/cedar/security"
	"github.com/bbockelm/cedar/server"
	"github.com/bbockelm/cedar/stream"
)

// ---- catalogue -------------------------------------------------------------

const (
	cmdP  = 1001 // permissive policy
	cmdA  = 1002 // authentication REQUIRED
	cmdE  = 1003 // encryption REQUIRED
	cmdI  = 1004 // integrity REQUIRED
	cmdAE = 1005 // everything REQUIRED
	cmdR  = 1006 // raw handler
	cmdU  = 1007 // never registered
	cmdN  = 1008 // registered without levels, default policy
)

var allCmds = []int{cmdP, cmdA, cmdE, cmdI, cmdAE, cmdR, cmdU, cmdN}

var permCode = map[string]int{"READ": 1, "WRITE": 2, "DAEMON": 3, "ADMIN": 4}
var addrCode = map[string]int{"10.0.0.1:1111": 1, "10.0.0.2:2222": 2}
var osUser = func() string {
	u, err := user.Current()
	if err != nil {
		return "nobody"
	}
	return u.Username
}()

func userCode(u string) int {
	switch u {
	case "":
		return 0
	case osUser:
		return 1
	case "alice":
		return 2
	case "bob":
		return 3
	case security.SubmitSideMatchSessionFQU:
		return 4
	}
	return 99
}

var levelTerm = map[string]string{"": "LUnset", "NEVER": "LNever", "OPTIONAL": "LOptional", "PREFERRED": "LPreferred", "REQUIRED": "LRequired"}
var levelNames = []string{"", "NEVER", "OPTIONAL", "PREFERRED", "REQUIRED"}

type Pol struct{ A, E, I string }

func (p Pol) term() string {
	return fmt.Sprintf("(Build_policy %s %s %s)", levelTerm[p.A], levelTerm[p.E], levelTerm[p.I])
}
func polOpt(p *Pol) string {
	if p == nil {
		return "None"
	}
	return "(Some " + p.term() + ")"
}

type Hent struct {
	Cmd   int      `json:"cmd"`
	ID    int      `json:"id"`
	Raw   bool     `json:"raw,omitempty"`
	Perms []string `json:"perms,omitempty"`
}
type PerCmd struct {
	Cmd int `json:"cmd"`
	P   Pol `json:"p"`
}
type Triple struct{ Perm, Addr, User string }

// Tables is everything the dispatch reads from the Server at one moment.
type Tables struct {
	Default   *Pol     `json:"default"`
	HasPerCmd bool     `json:"has_percmd"`
	PerCmd    []PerCmd `json:"percmd,omitempty"`
	HasAuthz  bool     `json:"has_authz"`
	Authz     []Triple `json:"authz,omitempty"`
	Handlers  []Hent   `json:"handlers"`
}

func (t *Tables) clone() *Tables {
	n := *t
	if t.Default != nil {
		d := *t.Default
		n.Default = &d
	}
	n.PerCmd = append([]PerCmd(nil), t.PerCmd...)
	n.Authz = append([]Triple(nil), t.Authz...)
	n.Handlers = nil
	for _, h := range t.Handlers {
		h.Perms = append([]string(nil), h.Perms...)
		n.Handlers = append(n.Handlers, h)
	}
	return &n
}
func (t *Tables) lookup(c int) *Hent {
	for i := range t.Handlers {
		if t.Handlers[i].Cmd == c {
			return &t.Handlers[i]
		}
	}
	return nil
}
func (t *Tables) policy(c int) *Pol {
	if t.HasPerCmd {
		for i := range t.PerCmd {
			if t.PerCmd[i].Cmd == c {
				return &t.PerCmd[i].P
			}
		}
	}
	return t.Default
}
func (t *Tables) allowed(perm, addr, u string) bool {
	for _, x := range t.Authz {
		if x.Perm == perm && x.Addr == addr && x.User == u {
			return true
		}
	}
	return false
}
func (t *Tables) setPolicy(c int, p Pol) {
	t.HasPerCmd = true
	for i := range t.PerCmd {
		if t.PerCmd[i].Cmd == c {
			t.PerCmd[i].P = p
			return
		}
	}
	t.PerCmd = append(t.PerCmd, PerCmd{c, p})
}
func (t *Tables) term() string {
	per := "None"
	if t.HasPerCmd {
		var xs []string
		for _, pc := range t.PerCmd {
			xs = append(xs, core.Pair(core.Z(int64(pc.Cmd)), pc.P.term()))
		}
		per = "(Some " + core.List(xs) + ")"
	}
	az := "None"
	if t.HasAuthz {
		var xs []string
		for _, x := range t.Authz {
			xs = append(xs, fmt.Sprintf("(%d, %d, %d)", permCode[x.Perm], addrCode[x.Addr], userCode(x.User)))
		}
		az = "(Some " + core.List(xs) + ")"
	}
	var hs []string
	for _, h := range t.Handlers {
		var ps []string
		for _, p := range h.Perms {
			ps = append(ps, fmt.Sprint(permCode[p]))
		}
		hs = append(hs, core.Pair(core.Z(int64(h.Cmd)), fmt.Sprintf("(Build_hentry %d %s %s)", h.ID, core.Bool(h.Raw), core.List(ps))))
	}
	return fmt.Sprintf("(Build_tsrv %s %s %s %s)", polOpt(t.Default), per, az, core.List(hs))
}

var opt = Pol{"OPTIONAL", "OPTIONAL", "OPTIONAL"}

func baseTables() *Tables {
	d := opt
	return &Tables{
		Default:   &d,
		HasPerCmd: true,
		PerCmd: []PerCmd{
			{cmdP, Pol{"OPTIONAL", "OPTIONAL", "OPTIONAL"}},
			{cmdA, Pol{"REQUIRED", "OPTIONAL", "OPTIONAL"}},
			{cmdE, Pol{"OPTIONAL", "REQUIRED", "OPTIONAL"}},
			{cmdI, Pol{"PREFERRED", "OPTIONAL", "REQUIRED"}},
			{cmdAE, Pol{"REQUIRED", "REQUIRED", "REQUIRED"}},
		},
		Handlers: []Hent{
			{Cmd: cmdP, ID: 1, Perms: []string{"READ"}},
			{Cmd: cmdA, ID: 2, Perms: []string{"WRITE"}},
			{Cmd: cmdE, ID: 3, Perms: []string{"READ"}},
			{Cmd: cmdI, ID: 4, Perms: []string{"READ", "DAEMON"}},
			{Cmd: cmdAE, ID: 5, Perms: []string{"DAEMON"}},
			{Cmd: cmdR, ID: 6, Raw: true},
			{Cmd: cmdN, ID: 8},
		},
	}
}

const addr1 = "10.0.0.1:1111"
const addr2 = "10.0.0.2:2222"

func authzVariant(name string) (bool, []Triple) {
	var out []Triple
	add := func(perms []string, addrs []string, users []string) {
		for _, p := range perms {
			for _, a := range addrs {
				for _, u := range users {
					out = append(out, Triple{p, a, u})
				}
			}
		}
	}
	switch name {
	case "none":
		return false, nil
	case "generous": // every level for every identity (also the anonymous one) from addr1
		add([]string{"READ", "WRITE", "DAEMON"}, []string{addr1}, []string{"", osUser, "alice", "bob"})
	case "readonly": // READ for everyone, nothing else
		add([]string{"READ"}, []string{addr1, addr2}, []string{"", osUser, "alice", "bob"})
	case "users": // alice and the OS user get WRITE and DAEMON, anonymous gets READ
		add([]string{"READ"}, []string{addr1}, []string{"", osUser, "alice", "bob"})
		add([]string{"WRITE", "DAEMON"}, []string{addr1}, []string{osUser, "alice"})
	case "claims": // the match-session identity of a claim and alice are DAEMONs and may WRITE
		add([]string{"READ", "WRITE", "DAEMON"}, []string{addr1}, []string{security.SubmitSideMatchSessionFQU, "alice"})
	case "empty":
	}
	return true, out
}
func withAuthz(t *Tables, name string) *Tables {
	n := t.clone()
	n.HasAuthz, n.Authz = authzVariant(name)
	return n
}

// ---- case description ----------------------------------------------------------

type StepSpec struct {
	Ret    string `json:"ret"`              // ka done err open panic
	Tables *int   `json:"tables,omitempty"` // tables installed by the handler before it returns
}
type ImportSpec struct {
	Key    string `json:"key"` // none aes badlen empty other
	Authn  bool   `json:"authn"`
	User   string `json:"user"`
	Forged bool   `json:"forged,omitempty"` // the importer marks it Authenticated although nothing ran
	Valid  []int  `json:"valid,omitempty"`  // ValidCommands carried by the entry's policy
	Mint   bool   `json:"mint,omitempty"`   // create it with security.MintClaimSession (a startd's claim session)
	// Client: the entry is the CLIENT-side record of a session this process established as a
	// client of some other server (real ClientHandshake against a second server.Server, stored by
	// storeClientSession in the process-wide cache a daemon's server side also resumes from)
	Client bool `json:"client,omitempty"`
}
type ConnSpec struct {
	Peer     string     `json:"peer"`
	Kind     string     `json:"kind"` // honest scripted raw resume garbage
	Authn    string     `json:"authn,omitempty"`
	Enc      string     `json:"enc,omitempty"`
	Name     string     `json:"name,omitempty"` // scripted: claimed user
	Key      string     `json:"key,omitempty"`  // scripted: omit | bad
	Cmds     []int      `json:"cmds"`
	ResumeOf int        `json:"resume_of,omitempty"` // kind resume: session number (1-based) to name
	NoCmd    bool       `json:"nocmd,omitempty"`     // resume: leave the Command attribute out
	Steps    []StepSpec `json:"steps,omitempty"`     // per invocation; missing = ka
	Tables   int        `json:"tables"`              // tables in force at the first dispatch
	// CutAfter > 0 (honest client): the client's connection dies after that many frames from the
	// server, i.e. before the post-auth message can be delivered: the handshake fails on the server
	// AFTER it has filed the session
	CutAfter int `json:"cut_after,omitempty"`
	// Masks (kind deviant): the peer's part of the method-selection loop, see deviate.go
	Masks []MaskStep `json:"masks,omitempty"`
}
type Event struct {
	Conn   *ConnSpec   `json:"conn,omitempty"`
	Drop   int         `json:"drop,omitempty"` // session number to invalidate
	Import *ImportSpec `json:"import,omitempty"`
}
type CaseSpec struct {
	// Custom: the server's SecurityConfig carries its own SessionCache; installed sessions go
	// there, handshake-negotiated ones are found through the fallback to the process-wide cache
	Custom bool   `json:"custom,omitempty"`
	Class  string `json:"class"`
	Tables []*Tables `json:"tables"`
	Events []Event   `json:"events"`
}

// ---- observations ------------------------------------------------------------------

type Inv struct {
	Handler int
	Raw     bool
	Cmd     int
	HasNeg  bool
	Authn   bool
	Enc     bool
	User    string
	Resumed bool
	Sid     int
	Valid   []int // Negotiation.ValidCommands, parsed
	EncReal bool
	at      *Tables // the tables in force at the moment of the call
}

func (i Inv) term() string {
	neg := "None"
	if i.HasNeg {
		neg = fmt.Sprintf("(Some (%s, %s, %d, %s, %d, %s))", core.Bool(i.Authn), core.Bool(i.Enc), userCode(i.User), core.Bool(i.Resumed), i.Sid, zlist(i.Valid))
	}
	return fmt.Sprintf("(Build_oinv %d %s %s %s %s)", i.Handler, core.Bool(i.Raw), core.Z(int64(i.Cmd)), neg, core.Bool(i.EncReal))
}

func zlist(v []int) string {
	var xs []string
	for _, x := range v {
		xs = append(xs, core.Z(int64(x)))
	}
	return core.List(xs)
}
func parseCmds(s string) []int {
	var out []int
	for _, f := range strings.Split(s, ",") {
		if n, err := strconv.Atoi(strings.TrimSpace(f)); err == nil {
			out = append(out, n)
		}
	}
	return out
}
func joinCmds(v []int) string {
	var xs []string
	for _, x := range v {
		xs = append(xs, strconv.Itoa(x))
	}
	return strings.Join(xs, ",")
}

type sessInfo struct {
	sid      string
	user     string
	authReal bool
	key      []byte
	honest   bool // the client-side cache holds it
	// ghost: the session's original connection was driven by a scripted peer that logged
	// every authentication exchange it took part in (exch)
	ghost bool
	exch  []exch
}

type postAuth struct {
	authn, enc bool
	user       string
}

type connRun struct {
	spec     *ConnSpec
	tables   *Tables // in force now
	invs     []Inv
	post     *postAuth
	authReal bool
	user     string
	failures []string
	ghost    bool   // exch is the scripted peer's log for this session's original connection
	exch     []exch
}

type caseRun struct {
	spec     *CaseSpec
	srv      *server.Server
	orig     func(string, string, bool, bool) (string, []int)
	cur      *connRun
	sids     map[string]int
	sess     []*sessInfo // by session number-1
	cliCache *security.SessionCache
	handlers map[int]server.HandlerFunc
	hsTerm   []string
	fails    []fail
	shared   []*security.SecurityConfig // the server's long-lived config objects
	custom   *security.SessionCache     // non-nil: the server config's own cache
	checks   int
	mu       sync.Mutex
	tags     []string // distribution counters
}
type fail struct{ key, desc string }

type recConn struct {
	net.Conn
	addr   string
	mu     sync.Mutex
	closed bool
}
// cutConn lets a number of CEDAR frames from the peer through and then fails.
type cutConn struct {
	net.Conn
	left   int // frames still allowed
	need   int // bytes of the current frame (header or payload) still to deliver
	inBody bool
	hdr    []byte
}

func (c *cutConn) Read(p []byte) (int, error) {
	if c.need == 0 {
		if c.inBody || c.hdr == nil {
			if c.left == 0 {
				_ = c.Conn.Close()
				return 0, io.ErrUnexpectedEOF
			}
			c.left--
			c.need, c.inBody, c.hdr = 5, false, make([]byte, 0, 5)
		}
	}
	if len(p) > c.need {
		p = p[:c.need]
	}
	n, err := c.Conn.Read(p)
	c.need -= n
	if !c.inBody {
		c.hdr = append(c.hdr, p[:n]...)
		if c.need == 0 {
			c.need = int(c.hdr[1])<<24 | int(c.hdr[2])<<16 | int(c.hdr[3])<<8 | int(c.hdr[4])
			c.inBody = true
		}
	}
	return n, err
}

type strAddr string

func (a strAddr) Network() string { return "tcp" }
func (a strAddr) String() string  { return string(a) }
func (c *recConn) RemoteAddr() net.Addr { return strAddr(c.addr) }
func (c *recConn) Close() error {
	c.mu.Lock()
	c.closed = true
	c.mu.Unlock()
	return c.Conn.Close()
}
func (c *recConn) isClosed() bool { c.mu.Lock(); defer c.mu.Unlock(); return c.closed }

func (r *caseRun) sidIndex(s string) int {
	if s == "" {
		return 0
	}
	if i, ok := r.sids[s]; ok {
		return i
	}
	i := len(r.sids) + 1
	r.sids[s] = i
	r.sess = append(r.sess, &sessInfo{sid: s})
	return i
}

func (r *caseRun) mkCfg(p *Pol) *security.SecurityConfig {
	if p == nil {
		return nil
	}
	return &security.SecurityConfig{
		AuthMethods:    []security.AuthMethod{security.AuthClaimToBe},
		CryptoMethods:  []security.CryptoMethod{security.CryptoAES},
		Authentication: security.SecurityLevel(p.A),
		Encryption:     security.SecurityLevel(p.E),
		Integrity:      security.SecurityLevel(p.I),
		PostAuthPolicy: r.postAuthWrapper,
		SessionCache:   r.custom,
	}
}

// postAuthWrapper observes the server's own view of the freshly negotiated
// session (what it will store and check) and then defers to the server's
// real postAuthPolicy.
func (r *caseRun) postAuthWrapper(authUser, peer string, authn, enc bool) (string, []int) {
	if r.cur != nil {
		r.cur.post = &postAuth{authn, enc, authUser}
	}
	if r.orig != nil {
		return r.orig(authUser, peer, authn, enc)
	}
	return "", nil
}

func (r *caseRun) apply(t *Tables) {
	s := r.srv
	s.SecurityConfig = r.mkCfg(t.Default)
	if s.SecurityConfig != nil {
		r.shared = append(r.shared, s.SecurityConfig)
	}
	if t.HasPerCmd {
		tt := t
		// one long-lived config object per command, as a daemon would hold them
		objs := map[int]*security.SecurityConfig{}
		for i := range tt.PerCmd {
			objs[tt.PerCmd[i].Cmd] = r.mkCfg(&tt.PerCmd[i].P)
			r.shared = append(r.shared, objs[tt.PerCmd[i].Cmd])
		}
		s.SecurityConfigForCommand = func(c int) *security.SecurityConfig { return objs[c] }
	} else {
		s.SecurityConfigForCommand = nil
	}
	if t.HasAuthz {
		tt := t
		s.Authorizer = func(perm, peer, u string) bool { return tt.allowed(perm, peer, u) }
	} else {
		s.Authorizer = nil
	}
	for _, h := range t.Handlers {
		if h.Raw {
			s.HandleRaw(h.Cmd, r.handler(h.ID))
		} else {
			s.Handle(h.Cmd, r.handler(h.ID), h.Perms...)
		}
	}
	if r.cur != nil {
		r.cur.tables = t
	}
}

// handlerKind: ids are fixed per command in the catalogue; the id tells which
// registration (authenticated or raw) the function belongs to.
var rawIDs = map[int]bool{6: true, 13: true}

func (r *caseRun) handler(id int) server.HandlerFunc {
	if h, ok := r.handlers[id]; ok {
		return h
	}
	h := func(ctx context.Context, c *server.Conn) error {
		cr := r.cur
		k := len(cr.invs)
		inv := Inv{Handler: id, Cmd: c.Command, Raw: c.Negotiation == nil, EncReal: c.Stream != nil && c.Stream.IsEncrypted()}
		if n := c.Negotiation; n != nil {
			inv.HasNeg, inv.Authn, inv.Enc, inv.User, inv.Resumed = true, n.Authentication, n.Encryption, n.User, n.SessionResumed
			inv.Sid = r.sidIndex(n.SessionId)
			inv.Valid = parseCmds(n.ValidCommands)
		}
		inv.at = cr.tables
		cr.invs = append(cr.invs, inv)
		st := StepSpec{Ret: "ka"}
		if k < len(cr.spec.Steps) {
			st = cr.spec.Steps[k]
		}
		if st.Tables != nil {
			r.apply(r.spec.Tables[*st.Tables])
		}
		switch st.Ret {
		case "done":
			return nil
		case "err":
			return errors.New("handler failed")
		case "open":
			return server.KeepOpen()
		case "panic":
			panic("vh-c05: scripted handler panic")
		}
		c.KeepAlive()
		return nil
	}
	r.handlers[id] = h
	return h
}

// ---- the direct property oracle (does not use the model) ---------------------------

func req(p *Pol) (authn, enc bool) {
	if p == nil {
		return false, false
	}
	return p.A == "REQUIRED", p.E == "REQUIRED" || p.I == "REQUIRED"
}

func (r *caseRun) bad(cr *connRun, key, format string, a ...interface{}) {
	r.fails = append(r.fails, fail{key, fmt.Sprintf(format, a...)})
}

// oracleAtCall judges one handler invocation against the tables the harness
// itself had installed at the moment of the call (snapshot inv.at), what the
// scripted client really did (cr.authReal, cr.user) and the stream's real
// state as the handler saw it. It runs after the connection has ended because
// the client side learns its own outcome concurrently with the first dispatch.
func (r *caseRun) oracleAtCall(cr *connRun, k int, inv Inv) {
	t := inv.at
	sp := cr.spec
	r.checks++
	authPath := sp.Kind != "raw" && sp.Kind != "garbage"
	if rawIDs[inv.Handler] {
		if authPath || inv.HasNeg {
			r.bad(cr, "raw-handler-via-authenticated-path", "raw handler %d ran for command %d on a DC_AUTHENTICATE connection", inv.Handler, inv.Cmd)
		}
		h := t.lookup(inv.Cmd)
		if h == nil || !h.Raw || h.ID != inv.Handler {
			r.bad(cr, "wrong-handler", "raw handler %d ran for command %d which is not registered to it", inv.Handler, inv.Cmd)
		}
		return
	}
	// a handler registered as authenticated
	if !authPath || !inv.HasNeg {
		r.bad(cr, "authenticated-handler-via-raw-path", "authenticated handler %d ran for command %d with no handshake", inv.Handler, inv.Cmd)
		return
	}
	if k >= len(sp.Cmds) || sp.Cmds[k] != inv.Cmd {
		r.bad(cr, "command-not-the-one-sent", "invocation %d ran command %d but the client's commands were %v", k, inv.Cmd, sp.Cmds)
	}
	h := t.lookup(inv.Cmd)
	if h == nil || h.Raw || h.ID != inv.Handler {
		r.bad(cr, "wrong-handler", "handler %d ran for command %d which is not currently registered to it as authenticated", inv.Handler, inv.Cmd)
		return
	}
	ra, re := req(t.policy(inv.Cmd))
	// the scripted peer's own log: a handler registered as authenticated for a command whose
	// current policy requires authentication ran => some authentication exchange really
	// completed successfully on this session's original connection
	if ra && cr.ghost && !anyOK(cr.exch) {
		r.bad(cr, "handler-ran-on-unauthenticated-session", "handler %d of command %d (authentication REQUIRED now) ran on a session over whose original connection no authentication exchange completed (peer's log: %v; session reports Authentication=%t User=%q; client %s masks=%v)", inv.Handler, inv.Cmd, cr.exch, inv.Authn, inv.User, sp.Kind, sp.Masks)
	}
	if ra && !inv.Authn {
		r.bad(cr, "authn-required-session-unauthenticated", "command %d requires authentication now; session reports Authentication=false", inv.Cmd)
	}
	if ra && !cr.authReal {
		r.bad(cr, "authn-required-nothing-really-authenticated", "command %d requires authentication now; no authentication ever ran for this session (reported %t)", inv.Cmd, inv.Authn)
	}
	if re && !inv.EncReal {
		r.bad(cr, "enc-required-plaintext-stream", "command %d requires encryption/integrity now; Stream.IsEncrypted()=false (Negotiation.Encryption=%t, client kind %s key=%s)", inv.Cmd, inv.Enc, sp.Kind, sp.Key)
	}
	if t.HasAuthz {
		ok := false
		for _, p := range h.Perms {
			if t.allowed(p, sp.Peer, cr.user) {
				ok = true
			}
		}
		if !ok {
			r.bad(cr, "identity-not-authorized-now", "command %d ran for identity %q from %s which the current authorizer allows at none of %v", inv.Cmd, cr.user, sp.Peer, h.Perms)
		}
	}
	if inv.User != cr.user {
		r.bad(cr, "wrong-identity", "handler saw user %q, the session's identity is %q", inv.User, cr.user)
	}
}

// mustRefuse: the property's own rule, written over the REAL session facts.
func mustRefuse(t *Tables, path string, c int, authReal, encReal bool, u, peer string) bool {
	h := t.lookup(c)
	if h == nil {
		return true
	}
	if path == "raw" {
		return !h.Raw
	}
	if h.Raw {
		return true
	}
	ra, re := req(t.policy(c))
	if ra && !authReal || re && !encReal {
		return true
	}
	if t.HasAuthz {
		for _, p := range h.Perms {
			if t.allowed(p, peer, u) {
				return false
			}
		}
		return true
	}
	return false
}

// ---- scripted clients --------------------------------------------------------------------

var bg = context.Background()

func sendInt(ctx context.Context, st *stream.Stream, v int) error {
	m := message.NewMessageForStream(st)
	if err := m.PutInt(ctx, v); err != nil {
		return err
	}
	return m.FinishMessage(ctx)
}
func recvInt(ctx context.Context, st *stream.Stream) (int, error) {
	return message.NewMessageFromStream(st).GetInt(ctx)
}
func sendAd(ctx context.Context, st *stream.Stream, lead int, ad *classad.ClassAd) error {
	m := message.NewMessageForStream(st)
	if err := m.PutInt(ctx, lead); err != nil {
		return err
	}
	if err := m.PutClassAd(ctx, ad); err != nil {
		return err
	}
	return m.FinishMessage(ctx)
}
func recvAd(ctx context.Context, st *stream.Stream) (*classad.ClassAd, error) {
	return message.NewMessageFromStream(st).GetClassAdWithMaxSize(ctx, 8192)
}

type clientResult struct {
	valid    string // ValidCommands the server advertised to an honest client
	hsOK     bool
	sid      string
	user     string // identity established (what the client claimed and the server acked)
	authReal bool
	encReal  bool // the client saw the server switch to protected frames
	sent     int  // follow-on commands written
	// scripted peers: the log of authentication exchanges (ghost), whether the server
	// opened an authentication phase at all
	ghost     bool
	exch      []exch
	authPhase bool
}

// scriptedFull speaks the handshake through the public message API and
// deviates in its key material: it never completes key agreement.
func (r *caseRun) scriptedFull(ctx context.Context, st *stream.Stream, sp *ConnSpec) (res clientResult) {
	res.ghost = true
	ad := classad.New()
	_ = ad.Set("AuthMethods", "CLAIMTOBE")
	_ = ad.Set("CryptoMethods", "AES")
	_ = ad.Set("Authentication", sp.Authn)
	_ = ad.Set("Encryption", sp.Enc)
	_ = ad.Set("Integrity", "OPTIONAL")
	_ = ad.Set("Command", sp.Cmds[0])
	_ = ad.Set("RemoteVersion", security.DefaultRemoteVersion)
	_ = ad.Set("NegotiatedSession", true)
	_ = ad.Set("NewSession", "YES")
	_ = ad.Set("OutgoingNegotiation", "PREFERRED")
	_ = ad.Set("Enact", "NO")
	if sp.Key == "bad" {
		_ = ad.Set("ECDHPublicKey", "AAAAAAAAAAAAAAAAAAAAAAAAAAAAAAAAAAAAAAAAAAAAAAAAAAAAAAAAAAAAAAAAAAAAAAAAAAAAAAAAAAAAAAAAAAAAAA==")
	}
	if err := sendAd(ctx, st, commands.DC_AUTHENTICATE, ad); err != nil {
		return
	}
	sad, err := recvAd(ctx, st)
	if err != nil {
		return
	}
	if rc, ok := sad.EvaluateAttrString("ReturnCode"); ok && rc != "" && rc != "AUTHORIZED" {
		return
	}
	if a, _ := sad.EvaluateAttrString("Authentication"); a == "YES" {
		if err := sendInt(ctx, st, security.AuthBitmaskClaimToBe); err != nil {
			return
		}
		sel, err := recvInt(ctx, st)
		if err != nil || sel != security.AuthBitmaskClaimToBe {
			return
		}
		m := message.NewMessageForStream(st)
		_ = m.PutInt(ctx, 1)
		_ = m.PutString(ctx, sp.Name+"@verif")
		if err := m.FinishMessage(ctx); err != nil {
			return
		}
		ack, err := recvInt(ctx, st)
		res.exch = append(res.exch, exch{"CLAIMTOBE", err == nil && ack == 1})
		if err != nil || ack != 1 {
			return
		}
		res.authReal = true
		res.user = sp.Name
		if _, err := recvInt(ctx, st); err != nil { // exchangeKey: hasKey
			return
		}
	}
	// this client holds no key: it can only read the post-auth ad if the server
	// sends it in clear
	pad, err := recvAd(ctx, st)
	if err != nil {
		return
	}
	res.encReal = false
	res.sid, _ = pad.EvaluateAttrString("Sid")
	res.hsOK = true
	return
}

func (r *caseRun) scriptedResume(ctx context.Context, st *stream.Stream, sp *ConnSpec, si *sessInfo) (res clientResult) {
	ad := classad.New()
	if !sp.NoCmd {
		_ = ad.Set("Command", sp.Cmds[0])
	}
	_ = ad.Set("UseSession", "YES")
	_ = ad.Set("Sid", si.sid)
	_ = ad.Set("ResumeResponse", true)
	_ = ad.Set("RemoteVersion", security.DefaultRemoteVersion)
	if err := sendAd(ctx, st, commands.DC_AUTHENTICATE, ad); err != nil {
		return
	}
	rad, err := recvAd(ctx, st)
	if err != nil {
		return
	}
	if rc, _ := rad.EvaluateAttrString("ReturnCode"); rc != "AUTHORIZED" {
		return
	}
	res.hsOK = true
	res.sid = si.sid
	if len(si.key) == 32 {
		if st.SetSymmetricKey(si.key) == nil {
			res.encReal = true
		}
	}
	return
}

// ---- running one case ---------------------------------------------------------------------

func (r *caseRun) runConn(sp *ConnSpec) (obsTerm string, connTerm string) {
	cr := &connRun{spec: sp}
	r.cur = cr
	r.apply(r.spec.Tables[sp.Tables])

	sc, cc := net.Pipe()
	rc := &recConn{Conn: sc, addr: sp.Peer}
	ctx, cancel := context.WithTimeout(bg, 10*time.Second)
	defer cancel()
	_ = cc.SetDeadline(time.Now().Add(10 * time.Second))
	_ = sc.SetDeadline(time.Now().Add(10 * time.Second))
	done := make(chan struct{})
	var serr error
	var closed, panicked bool
	go func() {
		defer close(done)
		defer func() {
			if x := recover(); x != nil {
				// ServeConn has no recover of its own: a handler's panic unwinds it
				serr = fmt.Errorf("panic: %v", x)
				panicked = true
			}
			// what ServeConn left behind is recorded; then release a client that is
			// still writing to a connection the handler kept open
			closed = rc.isClosed()
			_ = sc.Close()
		}()
		serr = r.srv.ServeConn(ctx, rc)
	}()

	var clientEnd net.Conn = cc
	if sp.CutAfter > 0 {
		clientEnd = &cutConn{Conn: cc, left: sp.CutAfter}
	}
	st := stream.NewStream(clientEnd)
	st.SetPeerAddr("<192.0.2.1:9618>")
	var res clientResult
	var resumeSess *sessInfo
	first := "None"
	hs := "(HsErr None)"
	switch sp.Kind {
	case "garbage": // closes without sending a complete command
		first = "None"
	case "raw":
		first = "(Some " + core.Z(int64(sp.Cmds[0])) + ")"
		if sendInt(ctx, st, sp.Cmds[0]) == nil {
			res.hsOK = true
		}
	case "honest":
		first = "(Some " + core.Z(commands.DC_AUTHENTICATE) + ")"
		cfg := &security.SecurityConfig{
			AuthMethods:    []security.AuthMethod{security.AuthClaimToBe},
			CryptoMethods:  []security.CryptoMethod{security.CryptoAES},
			Authentication: security.SecurityLevel(sp.Authn),
			Encryption:     security.SecurityLevel(sp.Enc),
			Integrity:      security.SecurityOptional,
			Command:        sp.Cmds[0],
			SessionCache:   security.NewSessionCache(), // never resume implicitly
			TrustDomain:    "verif",
		}
		a := security.NewAuthenticator(cfg, st)
		neg, err := a.ClientHandshake(ctx)
		if err == nil {
			res.hsOK = true
			res.sid = neg.SessionId
			res.valid = neg.ValidCommands
			res.authReal = neg.Authentication
			if neg.Authentication {
				res.user = osUser
			}
			res.encReal = st.IsEncrypted()
			// keep the client-side entry for an honest resume later
			if e, ok := cfg.SessionCache.Lookup(neg.SessionId); ok {
				r.cliCache.Store(e)
			}
		}
	case "scripted":
		first = "(Some " + core.Z(commands.DC_AUTHENTICATE) + ")"
		res = r.scriptedFull(ctx, st, sp)
	case "deviant":
		first = "(Some " + core.Z(commands.DC_AUTHENTICATE) + ")"
		res = r.deviantFull(ctx, st, sp)
	case "resume":
		first = "(Some " + core.Z(commands.DC_AUTHENTICATE) + ")"
		if sp.ResumeOf >= 1 && sp.ResumeOf <= len(r.sess) {
			resumeSess = r.sess[sp.ResumeOf-1]
		} else {
			resumeSess = &sessInfo{sid: "verif-c05-no-such-session"}
		}
		if _, ok := r.cliCache.Lookup(resumeSess.sid); ok && resumeSess.honest && !sp.NoCmd {
			cfg := &security.SecurityConfig{
				Command:      sp.Cmds[0],
				SessionCache: r.cliCache,
				SessionID:    resumeSess.sid,
			}
			a := security.NewAuthenticator(cfg, st)
			if _, err := a.ClientHandshake(ctx); err == nil {
				res.hsOK, res.sid, res.encReal = true, resumeSess.sid, st.IsEncrypted()
			}
		} else {
			res = r.scriptedResume(ctx, st, sp, resumeSess)
		}
		res.authReal, res.user = resumeSess.authReal, resumeSess.user
		res.ghost, res.exch = resumeSess.ghost, resumeSess.exch
	}
	cr.authReal, cr.user = res.authReal, res.user
	cr.ghost, cr.exch = res.ghost, res.exch
	if sp.Kind == "deviant" {
		switch {
		case !res.hsOK:
			r.tags = append(r.tags, "deviant-handshake/refused-or-abandoned")
		case !res.authPhase:
			r.tags = append(r.tags, "deviant-handshake/completed-no-authentication-phase")
		case anyOK(res.exch):
			r.tags = append(r.tags, "deviant-handshake/completed-after-a-real-exchange")
		default:
			r.tags = append(r.tags, "deviant-handshake/completed-WITHOUT-any-exchange")
		}
	}

	// follow-on commands, until the server stops reading
	if res.hsOK && sp.Kind != "raw" {
		for _, c := range sp.Cmds[1:] {
			if err := sendInt(ctx, st, c); err != nil {
				break
			}
			res.sent++
		}
	}
	// the script is over: hang up (net.Pipe writes are synchronous, so the
	// server has consumed everything that was sent) and wait for ServeConn
	_ = cc.Close()
	select {
	case <-done:
	case <-time.After(10 * time.Second):
		r.bad(cr, "server-stuck", "ServeConn did not return")
		_ = sc.Close()
		<-done
	}

	// handshake input of the model
	switch sp.Kind {
	case "honest", "scripted", "deviant":
		if cr.post != nil && res.sid == "" && sp.CutAfter > 0 {
			// the client never learned the id of the session the server filed: find it by this
			// connection's (unique) peer address
			for _, e := range security.GetSessionCache().Snapshot() {
				if e.Addr() == sp.Peer {
					res.sid = e.ID()
				}
			}
		}
		if cr.post != nil {
			sidx := r.sidIndex(res.sid)
			if res.sid == "" {
				sidx = r.sidIndex(fmt.Sprintf("unknown-%d", len(r.sids)))
			}
			si := r.sess[sidx-1]
			si.user, si.authReal, si.honest = cr.post.user, res.authReal, sp.Kind == "honest"
			si.ghost, si.exch = res.ghost, res.exch
			hasKey := false
			if e, ok := security.GetSessionCache().Lookup(res.sid); ok && e.KeyInfo() != nil {
				hasKey = true
				si.key = e.KeyInfo().Data
			}
			full := fmt.Sprintf("(Build_full %s %s %s %d %d %s %s %s)", core.Z(int64(sp.Cmds[0])),
				core.Bool(cr.post.authn), core.Bool(cr.post.enc), userCode(cr.post.user), sidx,
				core.Bool(hasKey), core.Bool(res.authReal), core.Bool(res.encReal))
			hs = "(HsFull " + full + ")"
			if sp.CutAfter > 0 && !res.hsOK {
				// the handshake returned an error after the session was filed; what the client
				// really did up to there is what an honest client of that kind does
				authReal := cr.post.authn
				si.authReal = authReal
				full = fmt.Sprintf("(Build_full %s %s %s %d %d %s %s %s)", core.Z(int64(sp.Cmds[0])),
					core.Bool(cr.post.authn), core.Bool(cr.post.enc), userCode(cr.post.user), sidx,
					core.Bool(hasKey), core.Bool(authReal), core.Bool(hasKey))
				hs = "(HsErr (Some " + full + "))"
			}
		}
	case "resume":
		c := "(Some " + core.Z(int64(sp.Cmds[0])) + ")"
		if sp.NoCmd {
			c = "None"
		}
		n := sp.ResumeOf
		if n < 1 || n > len(r.sess) {
			n = 9999
		}
		hs = fmt.Sprintf("(HsResume %d %s true)", n, c)
	}

	// the direct oracle: every invocation, then the connection as a whole
	path := "auth"
	if sp.Kind == "raw" {
		path = "raw"
	}
	for k, inv := range cr.invs {
		r.oracleAtCall(cr, k, inv)
		r.checks++
		if mustRefuse(inv.at, path, inv.Cmd, res.authReal, inv.EncReal, res.user, sp.Peer) {
			r.bad(cr, "ran-command-that-must-be-refused", "command %d (position %d of %v, client %s/%s) ran although the session really had auth=%t enc=%t user=%q", inv.Cmd, k, sp.Cmds, sp.Kind, sp.Key, res.authReal, inv.EncReal, res.user)
		}
	}
	// ValidCommands as the client received them (end to end, not through the hook):
	// with an authorizer, every advertised command other than the negotiated one
	// comes from postAuthPolicy and must be runnable by this very session now
	if t0 := r.spec.Tables[sp.Tables]; sp.Kind == "honest" && res.hsOK && t0.HasAuthz && res.valid != "" {
		for _, f := range strings.Split(res.valid, ",") {
			var v int
			if _, err := fmt.Sscanf(strings.TrimSpace(f), "%d", &v); err != nil || v == sp.Cmds[0] {
				continue
			}
			r.checks++
			if mustRefuse(t0, "auth", v, res.authReal, res.encReal, res.user, sp.Peer) {
				r.bad(cr, "advertised-command-not-runnable", "ValidCommands=%q advertises %d to a session (auth=%t enc=%t user=%q) that may not run it now", res.valid, v, res.authReal, res.encReal, res.user)
			}
		}
	}
	if sp.Kind != "garbage" {
		r.checks++
		if len(cr.invs) > len(sp.Cmds) {
			r.bad(cr, "more-invocations-than-commands", "%d handlers ran for %d commands", len(cr.invs), len(sp.Cmds))
		}
		lastRet := "ka"
		if n := len(cr.invs); n > 0 && n-1 < len(sp.Steps) {
			lastRet = sp.Steps[n-1].Ret
		}
		// a command that was delivered and not run was refused: error, and closed
		delivered := 0
		if res.hsOK {
			delivered = 1 + res.sent
		}
		if path == "raw" && delivered > 1 {
			delivered = 1
		}
		if len(cr.invs) < delivered && (len(cr.invs) == 0 || lastRet == "ka") && serr == nil {
			r.bad(cr, "refusal-not-reported", "command %d was delivered and not run, but ServeConn returned nil", sp.Cmds[len(cr.invs)])
		}
		// a handler that did anything but return nil after KeepAlive() ended the connection:
		// no command may have run after it
		for k := 0; k+1 < len(cr.invs); k++ {
			if k < len(sp.Steps) && sp.Steps[k].Ret != "ka" {
				r.bad(cr, "command-ran-after-handler-ended", "handler %d of %v ended with %q, yet %d handlers ran on the connection", k, sp.Cmds, sp.Steps[k].Ret, len(cr.invs))
			}
		}
		if panicked != (lastRet == "panic" && len(cr.invs) > 0) {
			r.bad(cr, "panic-outcome-wrong", "ServeConn unwound by a panic: %t, the last handler that ran was scripted to %q (err=%v)", panicked, lastRet, serr)
		}
		// (after a panic ServeConn itself closes nothing: Server.Serve's recover does, see servePanic)
		if !closed && !panicked && !(lastRet == "open" && len(cr.invs) > 0) {
			r.bad(cr, "connection-not-closed", "ServeConn returned (err=%v) after running %d of %v without closing the connection", serr, len(cr.invs), sp.Cmds)
		}
	}
	// per-connection copy of the shared configuration: a handshake must not
	// write this connection's key material into the server's long-lived objects
	r.checks++
	for _, cfg := range r.shared {
		if cfg.ECDHPublicKey != "" {
			r.bad(cr, "shared-config-mutated", "a handshake wrote its ephemeral ECDH public key into a SecurityConfig shared by all connections")
			cfg.ECDHPublicKey = ""
		}
	}
	endc := 0
	switch {
	case panicked:
		endc = 4
	case serr != nil:
		endc = 1
	case !closed:
		endc = 2
	}

	// terms
	var steps []string
	cur := sp.Tables
	n := len(sp.Cmds)
	for k := 0; k < n; k++ {
		stp := StepSpec{Ret: "ka"}
		if k < len(sp.Steps) {
			stp = sp.Steps[k]
		}
		if stp.Tables != nil {
			cur = *stp.Tables
		}
		next := "None"
		if k+1 < n && sp.Kind != "raw" {
			next = "(Some " + core.Z(int64(sp.Cmds[k+1])) + ")"
		}
		ret := map[string]string{"ka": "HKeepAlive", "done": "HDone", "err": "HErr", "open": "HKeepOpen", "panic": "HPanic"}[stp.Ret]
		steps = append(steps, fmt.Sprintf("(Build_tstep %s %s %s)", ret, next, core.Nat(cur)))
	}
	connTerm = fmt.Sprintf("(TConn (Build_tconn %s %d %s %s %s))", core.Nat(sp.Tables), addrCode[sp.Peer], first, hs, core.List(steps))
	var is []string
	for _, i := range cr.invs {
		is = append(is, i.term())
	}
	obsTerm = fmt.Sprintf("(%s, %d)", core.List(is), endc)
	r.cur = nil
	return
}


func keyBytes(kind string) ([]byte, string, bool) {
	k32 := []byte("0123456789abcdef0123456789abcdef")
	switch kind {
	case "aes":
		return k32, "AES", true
	case "badlen":
		return k32[:20], "AES", true
	case "empty":
		return nil, "AES", true
	case "other":
		return k32, "BLOWFISH", true
	}
	return nil, "", false
}

// clientSideEntry makes this process a client of another (remote) server: a real full handshake
// whose client half stores its session in the process-wide cache. Returns the session id.
func clientSideEntry(authn bool) (string, error) {
	remote := server.New(&security.SecurityConfig{
		AuthMethods: []security.AuthMethod{security.AuthClaimToBe}, CryptoMethods: []security.CryptoMethod{security.CryptoAES},
		Authentication: security.SecurityOptional, Encryption: security.SecurityPreferred, Integrity: security.SecurityOptional,
	})
	remote.Handle(cmdP, func(context.Context, *server.Conn) error { return nil })
	sc, cc := net.Pipe()
	ctx, cancel := context.WithTimeout(bg, 10*time.Second)
	defer cancel()
	_ = cc.SetDeadline(time.Now().Add(10 * time.Second))
	_ = sc.SetDeadline(time.Now().Add(10 * time.Second))
	done := make(chan struct{})
	go func() { defer close(done); _ = remote.ServeConn(ctx, &recConn{Conn: sc, addr: "10.7.7.7:7777"}) }()
	st := stream.NewStream(cc)
	const remoteAddr = "<198.51.100.9:9618>"
	st.SetPeerAddr(remoteAddr)
	lvl := security.SecurityNever
	if authn {
		lvl = security.SecurityPreferred
	}
	cfg := &security.SecurityConfig{
		AuthMethods: []security.AuthMethod{security.AuthClaimToBe}, CryptoMethods: []security.CryptoMethod{security.CryptoAES},
		Authentication: lvl, Encryption: security.SecurityPreferred, Integrity: security.SecurityOptional,
		Command: cmdP, TrustDomain: "verif",
		// The other server lives in another process. In this single process its server half
		// files ITS record in the process-wide cache too, so the client half uses a private
		// cache here and the records are put where they would be in a two-process deployment below.
		SessionCache: security.NewSessionCache(),
	}
	neg, err := security.NewAuthenticator(cfg, st).ClientHandshake(ctx)
	_ = cc.Close()
	<-done
	if err != nil {
		return "", err
	}
	e, ok := cfg.SessionCache.Lookup(neg.SessionId)
	if !ok || e.Addr() != remoteAddr {
		return "", fmt.Errorf("the cache entry for %s is not the client-side record", neg.SessionId)
	}
	// the remote server's own record belongs to the remote process; ours is what
	// storeClientSession produced, in the cache our server half shares
	security.GetSessionCache().Invalidate(neg.SessionId)
	security.GetSessionCache().Store(e)
	return neg.SessionId, nil
}

var importCounter int
var importMu sync.Mutex

func runCase(spec *CaseSpec) (term string, checks int, fails []fail) {
	t, c, f, _ := runCaseTags(spec)
	return t, c, f
}

func runCaseTags(spec *CaseSpec) (term string, checks int, fails []fail, tags []string) {
	r := &caseRun{spec: spec, sids: map[string]int{}, handlers: map[int]server.HandlerFunc{}, cliCache: security.NewSessionCache()}
	if spec.Custom {
		r.custom = security.NewSessionCache()
	}
	cfg0 := r.mkCfg(&opt)
	cfg0.PostAuthPolicy = nil
	r.srv = server.New(cfg0)
	r.orig = cfg0.PostAuthPolicy
	var evs, obs []string
	for _, ev := range spec.Events {
		switch {
		case ev.Conn != nil:
			o, c := r.runConn(ev.Conn)
			evs = append(evs, c)
			obs = append(obs, o)
		case ev.Import != nil:
			im := ev.Import
			importMu.Lock()
			importCounter++
			n := importCounter
			importMu.Unlock()
			sid := fmt.Sprintf("verif-c05-import-%d", n)
			target := security.GetSessionCache()
			if r.custom != nil && !im.Client {
				target = r.custom
			}
			if im.Client {
				csid, err := clientSideEntry(im.Authn)
				if err != nil {
					r.fails = append(r.fails, fail{"harness-client-entry-failed", err.Error()})
					continue
				}
				sid = csid
			} else if im.Mint {
				// a startd-style claim session, created by the library itself
				mc, err := security.MintClaimSession(target, security.MintClaimOptions{
					Sinful: "<10.9.9.9:9618?sock=c05>", Birthdate: 1700000000, SequenceNum: n,
					PeerFQU: im.User, ValidCommands: im.Valid,
				})
				if err != nil {
					r.fails = append(r.fails, fail{"harness-mint-failed", err.Error()})
					continue
				}
				sid = mc.SessionID()
			} else {
				data, proto, has := keyBytes(im.Key)
				var ki *security.KeyInfo
				if has {
					ki = &security.KeyInfo{Data: data, Protocol: proto}
				}
				pol := classad.New()
				if im.Authn {
					_ = pol.Set("Authenticated", true)
				}
				if im.User != "" {
					_ = pol.Set("User", im.User)
				}
				if len(im.Valid) > 0 {
					_ = pol.Set("ValidCommands", joinCmds(im.Valid))
				}
				target.Store(security.NewSessionEntry(sid, addr1, ki, pol, time.Now().Add(time.Hour), 30*time.Minute, ""))
			}
			idx := r.sidIndex(sid)
			si := r.sess[idx-1]
			// the model's entry is read back from what is really in the cache
			e, ok := target.Lookup(sid)
			if !ok {
				r.fails = append(r.fails, fail{"harness-import-missing", sid})
				continue
			}
			kk := "KNone"
			if ki := e.KeyInfo(); ki != nil {
				aes := ki.Protocol == "AES" || ki.Protocol == "AESGCM"
				switch {
				case !aes:
					kk = "KOther"
				case len(ki.Data) == 32:
					kk = "KAes"
					si.key = ki.Data
				case len(ki.Data) == 0:
					kk = "KAesEmpty"
				default:
					kk = "KAesBadLen"
				}
			}
			authn, _ := e.Policy().EvaluateAttrBool("Authenticated")
			usr, _ := e.Policy().EvaluateAttrString("User")
			vc, _ := e.Policy().EvaluateAttrString("ValidCommands")
			// possession of a claim secret is what authenticates a minted session
			// a client-side record says that THIS process authenticated to the other server;
			// the server under test never authenticated anybody for it
			si.user, si.authReal = usr, authn && !im.Forged && !im.Client
			cside, _ := e.Policy().EvaluateAttrBool("CedarClientSideSession")
			ctor := "TImport"
			if im.Client {
				ctor = "TClient"
			}
			evs = append(evs, fmt.Sprintf("(%s %d (Build_sentry %s %s %d %s %s %s))", ctor, idx, kk, core.Bool(authn), userCode(usr), zlist(parseCmds(vc)), core.Bool(cside), core.Bool(si.authReal)))
		case ev.Drop > 0:
			if ev.Drop <= len(r.sess) {
				security.GetSessionCache().Invalidate(r.sess[ev.Drop-1].sid)
				if r.custom != nil {
					r.custom.Invalidate(r.sess[ev.Drop-1].sid)
				}
			}
			evs = append(evs, fmt.Sprintf("(TDrop %d)", ev.Drop))
		}
	}
	// do not let the process-wide cache grow
	for _, s := range r.sess {
		security.GetSessionCache().Invalidate(s.sid)
	}
	var tabs []string
	for _, t := range spec.Tables {
		tabs = append(tabs, t.term())
	}
	return fmt.Sprintf("(CHist %s %s %s)", core.List(tabs), core.List(evs), core.List(obs)), r.checks, r.fails, r.tags
}

// ---- generation --------------------------------------------------------------------------------

type kind struct {
	Name, Kind, Authn, Enc, User, Key string
}

var kinds = []kind{
	{"honest-auth-enc", "honest", "PREFERRED", "PREFERRED", "", ""},
	{"honest-unauth-enc", "honest", "NEVER", "PREFERRED", "", ""},
	{"honest-auth-plain", "honest", "PREFERRED", "NEVER", "", ""},
	{"honest-unauth-plain", "honest", "NEVER", "NEVER", "", ""},
	{"scripted-auth-omitkey", "scripted", "PREFERRED", "REQUIRED", "alice", "omit"},
	{"scripted-unauth-badkey", "scripted", "NEVER", "PREFERRED", "", "bad"},
	{"scripted-auth-omitkey-optional", "scripted", "REQUIRED", "OPTIONAL", "bob", "omit"},
}

func connOf(k kind, cmds []int, tables int) *ConnSpec {
	return &ConnSpec{Peer: addr1, Kind: k.Kind, Authn: k.Authn, Enc: k.Enc, Name: k.User, Key: k.Key, Cmds: cmds, Tables: tables}
}

type gen struct {
	c     *core.Ctx
	specs []*CaseSpec
}

func (g *gen) add(s *CaseSpec) { g.specs = append(g.specs, s) }

func ip(i int) *int { return &i }

func generate(c *core.Ctx) []*CaseSpec {
	g := &gen{c: c}
	base := baseTables()
	quick := c.Quick()
	maxLen := 3
	if !quick {
		maxLen = 4
	}
	// (1) single connection, command trees; handlers always keep alive.
	// The tree is explored lazily by the runner (see expand), so here only roots.
	for _, az := range []string{"none", "users", "readonly", "generous", "empty"} {
		t := withAuthz(base, az)
		for _, k := range kinds {
			for _, c0 := range allCmds {
				g.add(&CaseSpec{Class: fmt.Sprintf("tree/%s/%s", az, k.Name), Tables: []*Tables{t}, Events: []Event{{Conn: connOf(k, []int{c0}, 0)}}})
			}
		}
		for _, c0 := range allCmds {
			g.add(&CaseSpec{Class: "raw/" + az, Tables: []*Tables{t}, Events: []Event{{Conn: &ConnSpec{Peer: addr1, Kind: "raw", Cmds: []int{c0, cmdP}}}}})
		}
	}
	_ = maxLen
	// DC_AUTHENTICATE sent as a raw command is the authenticated path by definition;
	// a connection that sends nothing
	g.add(&CaseSpec{Class: "garbage", Tables: []*Tables{base}, Events: []Event{{Conn: &ConnSpec{Peer: addr1, Kind: "garbage", Cmds: []int{}}}}})
	// no SecurityConfig at all
	{
		t := base.clone()
		t.Default = nil
		for _, c0 := range []int{cmdP, cmdR, cmdU} {
			g.add(&CaseSpec{Class: "nil-config", Tables: []*Tables{t}, Events: []Event{{Conn: connOf(kinds[0], []int{c0}, 0)}}})
			g.add(&CaseSpec{Class: "nil-config", Tables: []*Tables{t}, Events: []Event{{Conn: &ConnSpec{Peer: addr1, Kind: "raw", Cmds: []int{c0}}}}})
		}
	}
	// (2) handler return kinds: first handler returns done/err/open, client still sends a second command
	for _, k := range kinds[:5] {
		for _, ret := range []string{"done", "err", "open", "panic"} {
			for _, c0 := range []int{cmdP, cmdN, cmdAE} {
				for _, c1 := range []int{cmdP, cmdAE, cmdR} {
					sp := connOf(k, []int{c0, c1}, 0)
					sp.Steps = []StepSpec{{Ret: ret}}
					g.add(&CaseSpec{Class: "ret/" + ret, Tables: []*Tables{base}, Events: []Event{{Conn: sp}}})
				}
			}
		}
	}
	// the SECOND (kept-alive) handler fails while a third command is on the wire; resumed sessions too
	for _, k := range kinds[:2] {
		for _, ret := range []string{"err", "panic"} {
			sp := connOf(k, []int{cmdP, cmdN, cmdP}, 0)
			sp.Steps = []StepSpec{{Ret: "ka"}, {Ret: ret}}
			g.add(&CaseSpec{Class: "ret/second-" + ret, Tables: []*Tables{base}, Events: []Event{{Conn: sp}}})
			first := connOf(k, []int{cmdP}, 0)
			first.Steps = []StepSpec{{Ret: "done"}}
			res := &ConnSpec{Peer: addr1, Kind: "resume", ResumeOf: 1, Cmds: []int{cmdP, cmdP, cmdP}, Steps: []StepSpec{{Ret: "ka"}, {Ret: ret}}}
			g.add(&CaseSpec{Class: "ret/resumed-second-" + ret, Tables: []*Tables{base}, Events: []Event{{Conn: first}, {Conn: res}}})
		}
	}
	for _, ret := range []string{"done", "err", "open", "ka", "panic"} {
		sp := &ConnSpec{Peer: addr1, Kind: "raw", Cmds: []int{cmdR, cmdP}, Steps: []StepSpec{{Ret: ret}}}
		g.add(&CaseSpec{Class: "ret-raw/" + ret, Tables: []*Tables{base}, Events: []Event{{Conn: sp}}})
	}
	// (3) tables changed by the running handler, before the follow-on command
	changes := tableChanges(base)
	for _, ch := range changes {
		for _, k := range kinds {
			for _, c0 := range []int{cmdP, cmdN, cmdAE} {
				for _, c1 := range ch.cmds {
					sp := connOf(k, []int{c0, c1, cmdP}, 0)
					sp.Steps = []StepSpec{{Ret: "ka", Tables: ip(1)}}
					g.add(&CaseSpec{Class: "change-in-conn/" + ch.name, Tables: []*Tables{ch.before, ch.after}, Events: []Event{{Conn: sp}}})
				}
			}
		}
	}
	// (4) reconnect and resume with a different command; tables changed or not in between
	type between struct {
		name string
		drop bool
	}
	for _, ch := range append([]tchange{{name: "unchanged", before: base, after: base, cmds: allCmds}}, changes...) {
		for _, k := range kinds {
			for _, c0 := range []int{cmdP, cmdN, cmdAE} {
				for _, c1 := range ch.cmds {
					for _, bt := range []between{{"", false}, {"drop", true}} {
						if bt.drop && (ch.name != "unchanged" || c1 != cmdP && c1 != cmdAE) {
							continue
						}
						first := connOf(k, []int{c0}, 0)
						first.Steps = []StepSpec{{Ret: "done"}}
						res := &ConnSpec{Peer: addr1, Kind: "resume", ResumeOf: 1, Cmds: []int{c1, cmdP, cmdAE}, Tables: 1}
						evs := []Event{{Conn: first}}
						if bt.drop {
							evs = append(evs, Event{Drop: 1})
						}
						evs = append(evs, Event{Conn: res})
						g.add(&CaseSpec{Class: "resume/" + ch.name + bt.name, Tables: []*Tables{ch.before, ch.after}, Events: evs})
					}
				}
			}
		}
	}
	// resume from another address (the authorizer sees the new peer), and without a Command attribute
	for _, k := range kinds[:5] {
		for _, c1 := range []int{cmdP, cmdA, cmdAE} {
			t := withAuthz(base, "users")
			first := connOf(k, []int{cmdP}, 0)
			first.Steps = []StepSpec{{Ret: "done"}}
			res := &ConnSpec{Peer: addr2, Kind: "resume", ResumeOf: 1, Cmds: []int{c1, cmdP}, Tables: 0}
			g.add(&CaseSpec{Class: "resume/other-addr", Tables: []*Tables{t}, Events: []Event{{Conn: first}, {Conn: res}}})
			res2 := &ConnSpec{Peer: addr1, Kind: "resume", ResumeOf: 1, Cmds: []int{c1}, NoCmd: true, Tables: 0}
			g.add(&CaseSpec{Class: "resume/no-command-attr", Tables: []*Tables{t}, Events: []Event{{Conn: first}, {Conn: res2}}})
		}
	}
	// resume of a session that never existed
	g.add(&CaseSpec{Class: "resume/unknown-sid", Tables: []*Tables{base}, Events: []Event{{Conn: &ConnSpec{Peer: addr1, Kind: "resume", ResumeOf: 7, Cmds: []int{cmdP}}}}})
	// (5) sessions installed by the application (ImportClaimSession-style), every key kind
	for _, key := range []string{"none", "aes", "badlen", "empty", "other"} {
		for _, authn := range []bool{false, true} {
			for _, az := range []string{"none", "users"} {
				for _, c1 := range []int{cmdP, cmdA, cmdE, cmdI, cmdAE, cmdR, cmdU, cmdN} {
					t := withAuthz(base, az)
					u := ""
					if authn {
						u = "alice"
					}
					res := &ConnSpec{Peer: addr1, Kind: "resume", ResumeOf: 1, Cmds: []int{c1, cmdAE}, Tables: 0}
					g.add(&CaseSpec{Class: "import/" + key, Tables: []*Tables{t}, Events: []Event{{Import: &ImportSpec{Key: key, Authn: authn, User: u}}, {Conn: res}}})
				}
			}
		}
	}
	// (6) claim-style sessions whose cache entry carries ValidCommands (named, not named, absent),
	// installed directly or minted by security.MintClaimSession, resumed while the CURRENT
	// authorizer allows or denies the identity; the table changes between two resumptions
	type azpair struct{ a, b string }
	for _, mint := range []bool{false, true} {
		for _, u := range []string{"alice", ""} {
			if u == "" && !mint {
				continue
			}
			for _, c1 := range []int{cmdP, cmdA, cmdAE, cmdN} {
				for vi, valid := range [][]int{nil, {c1}, {cmdE, c1, cmdR}, {cmdI}, {cmdP, cmdA, cmdE, cmdI, cmdAE, cmdN}} {
					for _, ap := range []azpair{{"claims", "empty"}, {"empty", "claims"}, {"claims", "readonly"}, {"none", "empty"}, {"users", "users"}} {
						if quick && (vi == 3 || ap.a == "users") && mint {
							continue
						}
						ta, tb := withAuthz(base, ap.a), withAuthz(base, ap.b)
						imp := &ImportSpec{Key: "aes", Authn: true, User: u, Valid: valid, Mint: mint}
						r1 := &ConnSpec{Peer: addr1, Kind: "resume", ResumeOf: 1, Cmds: []int{c1, cmdAE}, Tables: 0}
						r2 := &ConnSpec{Peer: addr1, Kind: "resume", ResumeOf: 1, Cmds: []int{c1, cmdA}, Tables: 1}
						// and inside one kept-alive connection: the first handler swaps the table
						r3 := &ConnSpec{Peer: addr1, Kind: "resume", ResumeOf: 1, Cmds: []int{cmdP, c1}, Tables: 0, Steps: []StepSpec{{Ret: "ka", Tables: ip(1)}}}
						cl := "claim-valid/installed"
						if mint {
							cl = "claim-valid/minted"
						}
						g.add(&CaseSpec{Class: cl, Tables: []*Tables{ta, tb}, Events: []Event{{Import: imp}, {Conn: r1}, {Conn: r2}, {Conn: r3}}})
					}
				}
			}
		}
	}
	// (8) role separation in the shared cache: this process, as a CLIENT of another server, holds
	// the client-side record of that session (real ClientHandshake + storeClientSession); a peer
	// naming that session id on OUR server must be treated like an unknown session -- the record
	// says who WE are at that server, nobody was ever authenticated by us
	for _, authn := range []bool{true, false} {
		for _, az := range []string{"none", "users", "generous"} {
			for _, c1 := range []int{cmdP, cmdA, cmdE, cmdAE, cmdN} {
				t := withAuthz(base, az)
				res := &ConnSpec{Peer: addr1, Kind: "resume", ResumeOf: 1, Cmds: []int{c1, cmdAE}, Tables: 0}
				g.add(&CaseSpec{Class: "client-record/other-server", Tables: []*Tables{t}, Events: []Event{{Import: &ImportSpec{Key: "aes", Authn: authn, Client: true}}, {Conn: res}}})
			}
		}
	}
	// (9) the handshake fails on the server AFTER the session was filed (the client's connection
	// dies before the post-auth message): nothing is dispatched, but the session exists and a
	// later connection naming it is served according to what was filed
	abortN := 0
	for _, k := range kinds[:4] {
		for _, cut := range []int{1, 4} {
			for _, c1 := range []int{cmdP, cmdA, cmdAE} {
				abortN++
				first := connOf(k, []int{cmdP}, 0)
				first.CutAfter = cut
				first.Peer = fmt.Sprintf("10.0.0.77:%d", 1000+abortN)
				res := &ConnSpec{Peer: addr1, Kind: "resume", ResumeOf: 1, Cmds: []int{c1, cmdP}, Tables: 0}
				g.add(&CaseSpec{Class: "abort-after-store", Tables: []*Tables{withAuthz(base, "none")}, Events: []Event{{Conn: first}, {Conn: res}}})
			}
		}
	}
	// (10) the server's SecurityConfig carries its own SessionCache: installed sessions live there,
	// negotiated ones are reached through the fallback to the process-wide cache
	for _, az := range []string{"none", "claims"} {
		for _, c1 := range []int{cmdP, cmdA, cmdAE} {
			t := withAuthz(base, az)
			for _, mint := range []bool{false, true} {
				imp := &ImportSpec{Key: "aes", Authn: true, User: "alice", Valid: []int{c1}, Mint: mint}
				res := &ConnSpec{Peer: addr1, Kind: "resume", ResumeOf: 1, Cmds: []int{c1, cmdAE}, Tables: 0}
				g.add(&CaseSpec{Custom: true, Class: "custom-cache/installed", Tables: []*Tables{t}, Events: []Event{{Import: imp}, {Conn: res}, {Drop: 1}, {Conn: res}}})
			}
			for _, k := range kinds[:2] {
				first := connOf(k, []int{cmdP}, 0)
				first.Steps = []StepSpec{{Ret: "done"}}
				res := &ConnSpec{Peer: addr1, Kind: "resume", ResumeOf: 1, Cmds: []int{c1, cmdP}, Tables: 0}
				g.add(&CaseSpec{Custom: true, Class: "custom-cache/negotiated", Tables: []*Tables{t}, Events: []Event{{Conn: first}, {Conn: res}}})
			}
		}
	}
	// (11) deviating (non-cedar) peers in the authentication phase of the REAL handshake, composed
	// with the real dispatch: the first command is negotiated at a level that does not insist on
	// authentication (per-command policies, PREFERRED/OPTIONAL on either side), the peer gives up
	// with bitmask 0 and stays on the line / selects a method and fails, garbles or abandons it /
	// fails and then succeeds; then commands whose policy REQUIRES authentication (and
	// encryption) follow on the kept-alive connection and, on a second connection, on the
	// resumed session. Ground truth = the peer's own log of completed exchanges.
	{
		pref := base.clone()
		pref.Default = &Pol{"PREFERRED", "OPTIONAL", "OPTIONAL"}
		pref.setPolicy(cmdP, Pol{"PREFERRED", "OPTIONAL", "OPTIONAL"})
		type tv struct {
			name string
			t    *Tables
			c0s  []int
		}
		for _, v := range []tv{
			{"base", withAuthz(base, "none"), []int{cmdP, cmdN, cmdI, cmdA}},
			{"generous", withAuthz(base, "generous"), []int{cmdP, cmdI}},
			{"preferred", withAuthz(pref, "none"), []int{cmdP, cmdN, cmdI}},
		} {
			for _, ds := range deviantScripts {
				for _, c0 := range v.c0s {
					for _, lvl := range []string{"PREFERRED", "OPTIONAL"} {
						for _, key := range []string{"good", "omit"} {
							enc := "OPTIONAL"
							if key == "good" {
								enc = "PREFERRED"
							}
							mk := func(cmds []int) *ConnSpec {
								return &ConnSpec{Peer: addr1, Kind: "deviant", Authn: lvl, Enc: enc, Name: "alice", Key: key,
									Masks: ds.masks, Cmds: cmds, Tables: 0}
							}
							// kept alive: REQUIRED commands follow on the same connection; then resumed
							res := &ConnSpec{Peer: addr1, Kind: "resume", ResumeOf: 1, Cmds: []int{cmdA, cmdAE}, Tables: 0}
							g.add(&CaseSpec{Class: "deviant/" + v.name + "/" + ds.name, Tables: []*Tables{v.t},
								Events: []Event{{Conn: mk([]int{c0, cmdA, cmdAE})}, {Conn: res}}})
							if v.name == "base" && (c0 == cmdP || c0 == cmdI) {
								// one command only, then reconnect: the REQUIRED command is the first of the resumed connection
								one := mk([]int{c0})
								one.Steps = []StepSpec{{Ret: "done"}}
								res2 := &ConnSpec{Peer: addr1, Kind: "resume", ResumeOf: 1, Cmds: []int{cmdAE, cmdP, cmdA}, Tables: 0}
								g.add(&CaseSpec{Class: "deviant/" + v.name + "/" + ds.name, Tables: []*Tables{v.t},
									Events: []Event{{Conn: one}, {Conn: res2}}})
							}
						}
					}
				}
			}
		}
	}
	// (7) command integers across the int32/int64 boundary: CEDAR integers are 64-bit, so a client
	// may name registered+2^32 etc.; none of them is a registered command and the handler and the
	// policy must be looked up under the same key
	var wide []int
	for _, x := range []int{cmdAE, cmdA, cmdR, cmdP} {
		wide = append(wide, x+1<<32, x-1<<32, x+1<<33, x+math.MinInt64)
	}
	wide = append(wide, 1<<31, 1<<32, -1, math.MaxInt64, math.MinInt64, math.MaxInt32+1+cmdAE, 0)
	tw := withAuthz(base, "none")
	for _, w := range wide {
		for _, k := range []kind{kinds[0], kinds[3], kinds[4]} {
			if k.Kind == "honest" && w < 0 {
				continue // the client library replaces a negative command by DC_AUTHENTICATE
			}
			g.add(&CaseSpec{Class: "wide/first", Tables: []*Tables{tw}, Events: []Event{{Conn: connOf(k, []int{w, cmdP}, 0)}}})
			g.add(&CaseSpec{Class: "wide/follow-on", Tables: []*Tables{tw}, Events: []Event{{Conn: connOf(k, []int{cmdP, w, cmdP}, 0)}}})
		}
		g.add(&CaseSpec{Class: "wide/raw", Tables: []*Tables{tw}, Events: []Event{{Conn: &ConnSpec{Peer: addr1, Kind: "raw", Cmds: []int{w}}}}})
		first := connOf(kinds[0], []int{cmdP}, 0)
		first.Steps = []StepSpec{{Ret: "done"}}
		g.add(&CaseSpec{Class: "wide/resumed", Tables: []*Tables{tw}, Events: []Event{{Conn: first}, {Conn: &ConnSpec{Peer: addr1, Kind: "resume", ResumeOf: 1, Cmds: []int{w, cmdP}}}}})
		g.add(&CaseSpec{Class: "wide/resumed-unauth", Tables: []*Tables{tw}, Events: []Event{{Conn: func() *ConnSpec { c := connOf(kinds[1], []int{cmdP}, 0); c.Steps = []StepSpec{{Ret: "done"}}; return c }()}, {Conn: &ConnSpec{Peer: addr1, Kind: "resume", ResumeOf: 1, Cmds: []int{w, cmdP}}}}})
	}
	return g.specs
}

type tchange struct {
	name          string
	before, after *Tables
	cmds          []int
}

func tableChanges(base *Tables) []tchange {
	var out []tchange
	// authorizer appears / tightens / loosens
	out = append(out, tchange{"authz-none-to-readonly", base, withAuthz(base, "readonly"), []int{cmdP, cmdA, cmdAE, cmdN}})
	out = append(out, tchange{"authz-generous-to-empty", withAuthz(base, "generous"), withAuthz(base, "empty"), []int{cmdP, cmdAE}})
	out = append(out, tchange{"authz-generous-to-users", withAuthz(base, "generous"), withAuthz(base, "users"), []int{cmdP, cmdA, cmdAE}})
	out = append(out, tchange{"authz-readonly-to-generous", withAuthz(base, "readonly"), withAuthz(base, "generous"), []int{cmdA, cmdAE}})
	// the permissive command now demands everything; the strict one is relaxed
	{
		a := base.clone()
		a.setPolicy(cmdP, Pol{"REQUIRED", "REQUIRED", "REQUIRED"})
		a.setPolicy(cmdAE, Pol{"OPTIONAL", "OPTIONAL", "OPTIONAL"})
		a.setPolicy(cmdN, Pol{"OPTIONAL", "OPTIONAL", "REQUIRED"})
		out = append(out, tchange{"policy-swapped", base, a, []int{cmdP, cmdAE, cmdN, cmdA}})
	}
	// default policy tightened (affects the command without its own policy)
	{
		a := base.clone()
		a.Default = &Pol{"REQUIRED", "PREFERRED", "PREFERRED"}
		out = append(out, tchange{"default-tightened", base, a, []int{cmdN, cmdP}})
	}
	// handler table: P becomes raw, R becomes authenticated, U gets registered, A's levels change
	{
		a := withAuthz(base, "users")
		b := a.clone()
		for i := range b.Handlers {
			switch b.Handlers[i].Cmd {
			case cmdP:
				b.Handlers[i] = Hent{Cmd: cmdP, ID: 13, Raw: true}
			case cmdR:
				b.Handlers[i] = Hent{Cmd: cmdR, ID: 16, Perms: []string{"READ"}}
			case cmdA:
				b.Handlers[i] = Hent{Cmd: cmdA, ID: 12, Perms: []string{"ADMIN"}}
			}
		}
		b.Handlers = append(b.Handlers, Hent{Cmd: cmdU, ID: 17, Perms: []string{"READ"}})
		out = append(out, tchange{"handlers-reregistered", a, b, []int{cmdP, cmdR, cmdA, cmdU}})
	}
	return out
}

// expand: children of a fully-run tree case (every command ran): one more follow-on command.
func expand(s *CaseSpec, maxLen int) []*CaseSpec {
	if !strings.HasPrefix(s.Class, "tree/") {
		return nil
	}
	sp := s.Events[0].Conn
	depth := maxLen
	// full depth without an authorizer for the three most different clients and
	// with the per-user authorizer for the fully honest one; one level less elsewhere
	deep := map[string]bool{"tree/none/honest-auth-enc": true, "tree/none/honest-unauth-enc": true,
		"tree/none/scripted-auth-omitkey-optional": true, "tree/users/honest-auth-enc": true}
	if !deep[s.Class] {
		depth = maxLen - 1
	}
	if len(sp.Cmds) >= depth {
		return nil
	}
	var out []*CaseSpec
	for _, c := range allCmds {
		n := *sp
		n.Cmds = append(append([]int(nil), sp.Cmds...), c)
		out = append(out, &CaseSpec{Class: s.Class, Tables: s.Tables, Events: []Event{{Conn: &n}}})
	}
	return out
}

type result struct {
	spec   *CaseSpec
	term   string
	fails  []fail
	nInv   int
	checks int
	tags   []string
}

func countInv(term string) int { return strings.Count(term, "Build_oinv") }

func runAll(c *core.Ctx, specs []*CaseSpec, maxLen int) []result {
	var all []result
	level := specs
	for len(level) > 0 {
		res := make([]result, len(level))
		var wg sync.WaitGroup
		sem := make(chan struct{}, 12)
		for i := range level {
			wg.Add(1)
			sem <- struct{}{}
			go func(i int) {
				defer wg.Done()
				defer func() { <-sem }()
				t0 := time.Now()
				t, n, f, tg := runCaseTags(level[i])
				if d := time.Since(t0); d > 2*time.Second {
					js, _ := json.Marshal(level[i].Events)
					fmt.Fprintf(os.Stderr, "slow case %.1fs %s %s\n", d.Seconds(), level[i].Class, js)
				}
				res[i] = result{level[i], t, f, countInv(t), n, tg}
			}(i)
		}
		wg.Wait()
		all = append(all, res...)
		var next []*CaseSpec
		for _, r := range res {
			if strings.HasPrefix(r.spec.Class, "tree/") && r.nInv == len(r.spec.Events[0].Conn.Cmds) {
				next = append(next, expand(r.spec, maxLen)...)
			}
		}
		level = next
	}
	return all
}

// ---- table cases (hooks) ------------------------------------------------------------------------

func tableCases(c *core.Ctx) {
	quick := c.Quick()
	lv := levelNames
	if quick {
		lv = levelNames[1:]
	}
	var pols []Pol
	for _, a := range lv {
		for _, e := range lv {
			for _, i := range lv {
				pols = append(pols, Pol{a, e, i})
			}
		}
	}
	if quick { // the unset level, one field at a time
		pols = append(pols, Pol{"", "REQUIRED", "REQUIRED"}, Pol{"REQUIRED", "", "REQUIRED"}, Pol{"REQUIRED", "REQUIRED", ""}, Pol{"", "", ""})
	}
	spec := func(p *Pol, a, e bool) bool {
		if p == nil {
			return true
		}
		if p.A == "REQUIRED" && !a {
			return false
		}
		if (p.E == "REQUIRED" || p.I == "REQUIRED") && !e {
			return false
		}
		return true
	}
	mk := func(p *Pol) *security.SecurityConfig {
		if p == nil {
			return nil
		}
		return &security.SecurityConfig{Authentication: security.SecurityLevel(p.A), Encryption: security.SecurityLevel(p.E), Integrity: security.SecurityLevel(p.I)}
	}
	one := func(def *Pol, perMode int, per *Pol) {
		// perMode 0: no function; 1: function returns nil; 2: function returns per
		s := server.New(mk(def))
		perTerm := "None"
		eff := def
		switch perMode {
		case 1:
			s.SecurityConfigForCommand = func(int) *security.SecurityConfig { return nil }
			perTerm = "(Some None)"
		case 2:
			s.SecurityConfigForCommand = func(int) *security.SecurityConfig { return mk(per) }
			perTerm = "(Some " + polOpt(per) + ")"
			eff = per
		}
		for _, a := range []bool{false, true} {
			for _, e := range []bool{false, true} {
				got := s.VerifCommandLevelSatisfied(0, a, e)
				c.OracleCheck()
				if got != spec(eff, a, e) {
					c.OracleFail("level-check-wrong", fmt.Sprintf("commandLevelSatisfied(policy=%v, authenticated=%t, encrypted=%t) = %t", eff, a, e, got), map[string]interface{}{"class": "level", "def": def, "mode": perMode, "per": per, "a": a, "e": e})
				}
				c.AddCase(fmt.Sprintf("(CLevel %s %s %s %s %s)", polOpt(def), perTerm, core.Bool(a), core.Bool(e), core.Bool(got)), map[string]interface{}{"class": "level", "def": def, "mode": perMode, "per": per, "a": a, "e": e})
				c.Count("table/commandLevelSatisfied")
			}
		}
	}
	one(nil, 0, nil)
	one(nil, 1, nil)
	allReq := Pol{"REQUIRED", "REQUIRED", "REQUIRED"}
	for i := range pols {
		p := pols[i]
		one(&p, 0, nil)
		one(&p, 1, nil)
		one(&allReq, 2, &p)
		if !quick {
			one(nil, 2, &p)
			one(&opt, 2, &p)
		}
	}

	// sessionSatisfies / lookup / postAuthPolicy on the catalogue's tables
	base := baseTables()
	var tabs []*Tables
	for _, az := range []string{"none", "users", "readonly", "generous", "empty"} {
		tabs = append(tabs, withAuthz(base, az))
	}
	for _, ch := range tableChanges(base) {
		tabs = append(tabs, ch.after)
	}
	nilDef := base.clone()
	nilDef.Default = nil
	nilDef.HasPerCmd = false
	tabs = append(tabs, nilDef)
	satUsers := []string{"", osUser, "alice", "bob"}
	if quick {
		satUsers = []string{"", osUser, "alice"}
		tabs = append(tabs[:5:5], tabs[8:]...)
	}
	for _, t := range tabs {
		r := &caseRun{spec: &CaseSpec{}, sids: map[string]int{}, handlers: map[int]server.HandlerFunc{}}
		cfg0 := r.mkCfg(&opt)
		cfg0.PostAuthPolicy = nil
		r.srv = server.New(cfg0)
		r.apply(t)
		var satQ, postQ []string
		for _, cmd := range append(append([]int(nil), allCmds...), cmdAE+1<<32, cmdR-1<<32, cmdA+math.MinInt64, -1) {
			reg, raw, _ := r.srv.VerifLookup(cmd)
			c.OracleCheck()
			if h := t.lookup(cmd); reg != (h != nil) || (h != nil && raw != h.Raw) {
				c.OracleFail("lookup-wrong", fmt.Sprintf("lookup(%d) = registered %t raw %t, the registrations say %v", cmd, reg, raw, h), map[string]interface{}{"class": "sat", "tables": t, "cmd": cmd})
			}
			for _, peer := range []string{addr1, addr2} {
				for _, u := range satUsers {
					for ai := 0; ai < 5; ai++ {
						var neg *security.SecurityNegotiation
						negT := "None"
						a, e := ai&1 != 0, ai&2 != 0
						if ai < 4 {
							neg = &security.SecurityNegotiation{Authentication: a, Encryption: e, User: u}
							negT = fmt.Sprintf("(Some (%s, %s, %d))", core.Bool(a), core.Bool(e), userCode(u))
						} else if u != "" || peer != addr1 {
							continue
						}
						got := r.srv.VerifSessionSatisfies(cmd, peer, neg)
						c.OracleCheck()
						// direct rule
						want := neg != nil
						if want {
							ra, re := req(t.policy(cmd))
							if ra && !a || re && !e {
								want = false
							}
							if want && t.HasAuthz {
								want = false
								if h := t.lookup(cmd); h != nil {
									for _, p := range h.Perms {
										if t.allowed(p, peer, u) {
											want = true
										}
									}
								}
							}
						}
						d := map[string]interface{}{"class": "sat", "tables": t, "cmd": cmd, "peer": peer, "user": u, "a": a, "e": e, "nil": neg == nil}
						if got != want {
							c.OracleFail("session-check-wrong", fmt.Sprintf("sessionSatisfies(cmd=%d, peer=%s, auth=%t enc=%t user=%q) = %t, the rule says %t", cmd, peer, a, e, u, got, want), d)
						}
						satQ = append(satQ, fmt.Sprintf("(%s, %d, %s, %s, %s, %s)", core.Z(int64(cmd)), addrCode[peer], negT, core.Bool(got), core.Bool(reg), core.Bool(raw)))
						c.Count("table/sessionSatisfies")
					}
				}
			}
		}
		for _, peer := range []string{addr1, addr2} {
			for _, u := range []string{"", osUser, "alice"} {
				for ai := 0; ai < 4; ai++ {
					a, e := ai&1 != 0, ai&2 != 0
					_, valid := r.srv.VerifPostAuthPolicy(u, peer, a, e)
					var vs []string
					d := map[string]interface{}{"class": "post", "tables": t, "peer": peer, "user": u, "a": a, "e": e}
					for _, v := range valid {
						vs = append(vs, core.Z(int64(v)))
						// advertised => dispatchable right now
						c.OracleCheck()
						neg := &security.SecurityNegotiation{Authentication: a, Encryption: e, User: u}
						if !r.srv.VerifSessionSatisfies(v, peer, neg) {
							c.OracleFail("advertised-command-not-runnable", fmt.Sprintf("ValidCommands contains %d for a session (auth=%t enc=%t user=%q) that may not run it", v, a, e, u), d)
						}
						if h := t.lookup(v); h == nil || h.Raw {
							c.OracleFail("advertised-command-not-authenticated", fmt.Sprintf("ValidCommands contains %d which is not an authenticated command", v), d)
						}
					}
					postQ = append(postQ, fmt.Sprintf("(%d, %d, %s, %s, %s)", userCode(u), addrCode[peer], core.Bool(a), core.Bool(e), core.List(vs)))
					c.Count("table/postAuthPolicy")
				}
			}
		}
		c.AddCase(fmt.Sprintf("(CSat %s %s)", t.term(), core.List(satQ)), map[string]interface{}{"class": "sat", "tables": t})
		c.AddCase(fmt.Sprintf("(CPost %s %s)", t.term(), core.List(postQ)), map[string]interface{}{"class": "post", "tables": t})
		c.Evaluated(len(satQ) + len(postQ) - 2)
	}
}

// ---- entry points ----------------------------------------------------------------------------------

func genMain(c *core.Ctx) error {
	slog.SetDefault(slog.New(slog.NewTextHandler(io.Discard, nil)))
	maxLen := 3
	if !c.Quick() {
		maxLen = 4
	}
	tableCases(c)
	servePanic(c)
	specs := generate(c)
	results := runAll(c, specs, maxLen)
	sort.SliceStable(results, func(i, j int) bool { return results[i].spec.Class < results[j].spec.Class })
	for _, r := range results {
		c.AddCase(r.term, r.spec)
		c.Count("hist/" + strings.SplitN(r.spec.Class, "/", 3)[0] + "/" + second(r.spec.Class))
		c.CountN("invocations", r.nInv)
		for _, tg := range r.tags {
			c.Count(tg)
		}
		for i := 0; i < r.checks; i++ {
			c.OracleCheck()
		}
		if r.nInv > 0 {
			c.Nontrivial(r.term)
		}
		if strings.Contains(r.term, "true true))") {
			c.Count("hist-with-authenticated-encrypted-invocation")
		}
		for _, f := range r.fails {
			c.OracleFail(f.key, f.desc, r.spec)
		}
		c.Sample(r.spec)
	}
	c.Rule("nontrivial = a multi-connection history in which at least one handler was invoked (distinct by full observation)")
	c.Exhaustive(false)
	c.Note("command trees: every sequence over the 8 catalogue commands up to the tier's length is either run or has a run proper prefix that ended in a refusal")
	c.Assume("handlers do not modify Conn.Negotiation or the stream's key (application code is outside the property)")
	return nil
}

func second(s string) string {
	p := strings.Split(s, "/")
	if len(p) > 1 {
		return p[1]
	}
	return ""
}

func replay(raw json.RawMessage) error {
	if os.Getenv("VERIF_C05_LOG") == "" {
		slog.SetDefault(slog.New(slog.NewTextHandler(io.Discard, nil)))
	}
	var probe struct {
		Class string `json:"class"`
	}
	_ = json.Unmarshal(raw, &probe)
	switch probe.Class {
	case "level", "sat", "post", "serve":
		return fmt.Errorf("table case: re-run `bin/check C05 quick` (the table checks are exhaustive and deterministic): %s", string(raw))
	}
	var spec CaseSpec
	if err := json.Unmarshal(raw, &spec); err != nil {
		return err
	}
	term, _, fails := runCase(&spec)
	fmt.Println(term)
	if len(fails) > 0 {
		return fmt.Errorf("%s: %s", fails[0].key, fails[0].desc)
	}
	return nil
}

func facts(w *strings.Builder) error {
	fmt.Fprintf(w, "(* generated by vh-c05 facts from /repo — do not edit *)\nFrom Coq Require Import ZArith.\n")
	fmt.Fprintf(w, "Definition DC_AUTHENTICATE : Z := %d%%Z.\n", commands.DC_AUTHENTICATE)
	if security.SecurityRequired != "REQUIRED" {
		return fmt.Errorf("security.SecurityRequired is %q, the model's LRequired stands for \"REQUIRED\"", security.SecurityRequired)
	}
	return nil
}

func main() { core.MainWithFacts("C05", genMain, replay, facts) }
