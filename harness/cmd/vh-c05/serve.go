// Server.Serve's panic isolation, on the real accept loop: ServeConn has no recover, so a
// handler's panic unwinds it; the per-connection goroutine of Serve recovers, closes THAT
// connection, and the daemon keeps accepting. Direct oracle only (the model's EPanic /
// closed_under_serve is compared through the ServeConn-level cases).
package main

import (
	"context"
	"errors"
	"net"
	"sync"
	"time"

	"verifharness/core"

	"github.com/bbockelm/cedar/security"
	"github.com/bbockelm/cedar/server"
	"github.com/bbockelm/cedar/stream"
)

// chanListener hands out prepared in-memory connections.
type chanListener struct {
	ch   chan net.Conn
	done chan struct{}
	once sync.Once
}

func (l *chanListener) Accept() (net.Conn, error) {
	select {
	case c := <-l.ch:
		return c, nil
	case <-l.done:
		return nil, errors.New("listener closed")
	}
}
func (l *chanListener) Close() error   { l.once.Do(func() { close(l.done) }); return nil }
func (l *chanListener) Addr() net.Addr { return strAddr("10.0.0.9:9618") }

// sigConn records Close() and signals it.
type sigConn struct {
	*recConn
	closedCh chan struct{}
	once     sync.Once
}

func (c *sigConn) Close() error {
	err := c.recConn.Close()
	c.once.Do(func() { close(c.closedCh) })
	return err
}

func servePanic(c *core.Ctx) {
	for _, path := range []string{"auth", "auth-follow-on", "raw"} {
		for _, fail := range []string{"panic", "err"} {
			d := map[string]interface{}{"class": "serve", "path": path, "fail": fail}
			var mu sync.Mutex
			ran := 0
			cfg := &security.SecurityConfig{
				AuthMethods: []security.AuthMethod{security.AuthClaimToBe}, CryptoMethods: []security.CryptoMethod{security.CryptoAES},
				Authentication: security.SecurityOptional, Encryption: security.SecurityOptional, Integrity: security.SecurityOptional,
			}
			srv := server.New(cfg)
			failAt := 1
			if path == "auth-follow-on" {
				failAt = 2
			}
			h := func(ctx context.Context, cn *server.Conn) error {
				mu.Lock()
				ran++
				n := ran
				mu.Unlock()
				if n == failAt {
					if fail == "panic" {
						panic("vh-c05: scripted handler panic under Serve")
					}
					return errors.New("handler failed")
				}
				cn.KeepAlive()
				return nil
			}
			srv.Handle(cmdP, h, "READ")
			srv.HandleRaw(cmdR, h)
			ln := &chanListener{ch: make(chan net.Conn), done: make(chan struct{})}
			ctx, cancel := context.WithTimeout(bg, 20*time.Second)
			served := make(chan struct{})
			go func() { defer close(served); _ = srv.Serve(ctx, ln) }()

			dial := func(raw bool, follow int, hangUp bool) (closedByServer bool) {
				sc, cc := net.Pipe()
				_ = cc.SetDeadline(time.Now().Add(10 * time.Second))
				_ = sc.SetDeadline(time.Now().Add(10 * time.Second))
				sg := &sigConn{recConn: &recConn{Conn: sc, addr: addr1}, closedCh: make(chan struct{})}
				ln.ch <- sg
				st := stream.NewStream(cc)
				st.SetPeerAddr("<192.0.2.1:9618>")
				ok := false
				if raw {
					ok = sendInt(ctx, st, cmdR) == nil
				} else {
					a := security.NewAuthenticator(&security.SecurityConfig{
						AuthMethods: []security.AuthMethod{security.AuthClaimToBe}, CryptoMethods: []security.CryptoMethod{security.CryptoAES},
						Authentication: security.SecurityNever, Encryption: security.SecurityPreferred, Integrity: security.SecurityOptional,
						Command: cmdP, SessionCache: security.NewSessionCache(),
					}, st)
					_, err := a.ClientHandshake(ctx)
					ok = err == nil
				}
				for i := 0; ok && i < follow; i++ {
					if sendInt(ctx, st, cmdP) != nil {
						break
					}
				}
				// the server is done with the connection when it closes it; wait for that signal
				// (bounded), then hang up. hangUp: the client ends a kept-alive connection itself
				// first (the server then sees EOF and closes).
				if hangUp {
					_ = cc.Close()
				}
				select {
				case <-sg.closedCh:
					closedByServer = true
				case <-time.After(5 * time.Second):
				}
				_ = cc.Close()
				return
			}
			raw := path == "raw"
			closed1 := dial(raw, 3, false)
			mu.Lock()
			ran1 := ran
			mu.Unlock()
			c.OracleCheck()
			if !closed1 {
				c.OracleFail("handler-failure-connection-left-open", "Serve did not close the connection whose handler ended with "+fail+" ("+path+")", d)
			}
			c.OracleCheck()
			if ran1 != failAt {
				c.OracleFail("command-ran-after-handler-ended", core.Z(int64(ran1))+" handlers ran on a connection whose handler number "+core.Z(int64(failAt))+" ended with "+fail+" ("+path+")", d)
			}
			// the daemon survived: a second connection is served
			closed2 := dial(raw, 0, true)
			mu.Lock()
			ran2 := ran
			mu.Unlock()
			c.OracleCheck()
			if ran2 != ran1+1 || !closed2 {
				c.OracleFail("server-dead-after-handler-failure", "after a handler ended with "+fail+" ("+path+") the next connection was not served", d)
			}
			cancel()
			<-served
			c.Count("serve/" + path + "/" + fail)
		}
	}
}
