// vh-c10: correspondence + oracle for C10 (honest peers negotiate by the policy
// table and agree on the result).
//
//	(a) exhaustive correspondence of negotiateSecurity (hook) over level strings
//	    (the four names plus the YES/NO/garbage strings the client feeds it) x
//	    method/cipher list shapes; bitmask conversions over all single bits and a
//	    sweep of multi-bit values;
//	(b) the real ClientHandshake against the real ServerHandshake over an
//	    in-memory tapped connection for every cell of the 4^4 matrix x list
//	    shapes x cipher shapes x command present/auth-only, followed by a
//	    message each way.  Every run is judged by an independently written
//	    decision table (the oracle, from the property text) and recorded as a
//	    Coq case evaluated against Model/Negotiate.v.
package main

import (
	"bytes"
	"context"
	"crypto/hmac"
	"crypto/sha256"
	"encoding/base64"
	"encoding/json"
	"errors"
	"fmt"
	"io"
	"os"
	"path/filepath"
	"runtime"
	"sort"
	"strings"
	"sync"
	"time"

	"golang.org/x/crypto/hkdf"

	"verifharness/core"
	"verifharness/mock"
	"verifharness/peer"

	"github.com/bbockelm/cedar/message"
	"github.com/bbockelm/cedar/security"
)

// ---------- Coq term printers ---------------------------------------------

func lvlTerm(s string) string {
	switch s {
	case "REQUIRED":
		return "Rq"
	case "PREFERRED":
		return "Pf"
	case "OPTIONAL":
		return "Op"
	case "NEVER":
		return "Nv"
	}
	return "Ot"
}

var methNames = map[string]string{"FS": "mFS", "IDTOKENS": "mIDT", "TOKEN": "mTOK", "SCITOKENS": "mSCI", "SSL": "mSSL",
	"KERBEROS": "mKRB", "CLAIMTOBE": "mCTB", "PASSWORD": "mPW", "NONE": "mNONE"}
var otherIdx = map[string]int{}

func other(s string) int {
	if k, ok := otherIdx[s]; ok {
		return k
	}
	k := len(otherIdx) + 1
	otherIdx[s] = k
	return k
}
func methTerm(s string) string {
	if t, ok := methNames[s]; ok {
		return t
	}
	return fmt.Sprintf("(mX %d)", other("m:"+s))
}
func ciphTerm(s string) string {
	switch s {
	case "AES":
		return "cAES"
	case "BLOWFISH":
		return "cBF"
	case "3DES":
		return "c3DES"
	}
	return fmt.Sprintf("(cX %d)", other("c:"+s))
}
func methList(ms []string) string {
	var t []string
	for _, m := range ms {
		t = append(t, methTerm(m))
	}
	return core.List(t)
}
func ciphList(cs []string) string {
	var t []string
	for _, c := range cs {
		t = append(t, ciphTerm(c))
	}
	return core.List(t)
}
func ciphOpt(s string) string {
	if s == "" {
		return "None"
	}
	return "(Some " + ciphTerm(s) + ")"
}

// batcher groups runs into one Coq case (a list of case1 terms): Coq's start-up
// cost per case file dominates, so fewer, larger files are much faster.
type batcher struct {
	c     *core.Ctx
	n     int
	terms []string
	descs []interface{}
}

func (b *batcher) add(term string, desc interface{}) {
	b.terms = append(b.terms, term)
	b.descs = append(b.descs, desc)
	b.c.Evaluated(1)
	if len(b.terms) >= b.n {
		b.flush()
	}
}
func (b *batcher) flush() {
	if len(b.terms) == 0 {
		return
	}
	b.c.AddCase(core.List(b.terms), map[string]interface{}{"batch": b.descs})
	b.c.Evaluated(-1)
	b.terms, b.descs = nil, nil
}

var bt *batcher

// ---------- (a) negotiateSecurity correspondence --------------------------

type negCase struct {
	Kind           string   `json:"kind"`
	SA, CA, SE, CE string   `json:",omitempty"`
	SI, CI         string   `json:",omitempty"`
	SM, CM         []string `json:",omitempty"`
	SC, CC         []string `json:",omitempty"`
}

func mcfg(a, e, i string, ms, cs []string) *security.SecurityConfig {
	cfg := &security.SecurityConfig{Authentication: security.SecurityLevel(a), Encryption: security.SecurityLevel(e),
		Integrity: security.SecurityLevel(i)}
	for _, m := range ms {
		cfg.AuthMethods = append(cfg.AuthMethods, security.AuthMethod(m))
	}
	for _, c := range cs {
		cfg.CryptoMethods = append(cfg.CryptoMethods, security.CryptoMethod(c))
	}
	return cfg
}
func (nc negCase) run() (*security.SecurityNegotiation, error) {
	return security.VerifNegotiateSecurity(mcfg(nc.CA, nc.CE, nc.CI, nc.CM, nc.CC), mcfg(nc.SA, nc.SE, nc.SI, nc.SM, nc.SC), false)
}

func negTerm(nc negCase) string {
	neg, err := nc.run()
	return fmt.Sprintf("(CNeg %s %s %s %s %s %s %s %s %s %s %s %s %s %s %s %s)",
		lvlTerm(nc.SA), lvlTerm(nc.CA), lvlTerm(nc.SE), lvlTerm(nc.CE), lvlTerm(nc.SI), lvlTerm(nc.CI),
		methList(nc.SM), methList(nc.CM), ciphList(nc.SC), ciphList(nc.CC),
		core.Bool(err != nil), core.Bool(neg.Authentication), core.Bool(neg.Encryption), core.Bool(neg.Enact),
		methTerm(string(neg.NegotiatedAuth)), ciphOpt(string(neg.NegotiatedCrypto)))
}

var fourLevels = []string{"REQUIRED", "PREFERRED", "OPTIONAL", "NEVER"}
var nonReqInteg = []string{"OPTIONAL", "NEVER", "PREFERRED"}

func genNegotiate(c *core.Ctx) {
	garbage := []string{"", "required", "Required", "TRUE", "REQUIRED ", "ALWAYS", "never"}
	type mshape struct{ s, c []string }
	mshapes := []mshape{
		{[]string{"CLAIMTOBE"}, []string{"CLAIMTOBE"}},
		{[]string{"FS"}, []string{"CLAIMTOBE"}},
	}
	cshapes := []mshape{
		{[]string{"AES"}, []string{"AES"}},
		{[]string{"AES"}, nil},
	}
	// exhaustive over 7^4 Authentication/Encryption level strings x 5^2 Integrity strings per list shape, packed: one case per shape and Integrity pair
	// carrying (levels in base 5, outcome bits) rows; NegotiatedAuth/Crypto depend
	// on the lists only and are compared once (rows where they differ are emitted
	// as individual cases).
	n := 0
	seven := append(append([]string{}, fourLevels...), "YES", "NO", "G")
	lidx := map[string]int{"Rq": 0, "Pf": 1, "Op": 2, "Nv": 3, "Ot": 4}
	// Integrity: the four names and what a server's response ad carries ("NO"), on both sides
	integ5 := append(append([]string{}, fourLevels...), "NO")
	for _, ms := range mshapes {
		for _, cs := range cshapes {
			for _, si := range integ5 {
				for _, ci := range integ5 {
					table := make([]int, 625)
					for i := range table {
						table[i] = -1
					}
					m0, k0 := "", ""
					first := true
					for _, sa := range seven {
						for _, ca := range seven {
							for _, se := range seven {
								for _, ce := range seven {
									g := func(s string) string {
										if s == "G" {
											n++
											return garbage[n%len(garbage)]
										}
										return s
									}
									nc := negCase{"neg", g(sa), g(ca), g(se), g(ce), si, ci, ms.s, ms.c, cs.s, cs.c}
									neg, err := nc.run()
									c.Count("negotiateSecurity")
									c.Evaluated(1)
									if first {
										m0, k0, first = string(neg.NegotiatedAuth), string(neg.NegotiatedCrypto), false
									}
									code := 0
									if err != nil {
										code |= 1
									}
									if neg.Authentication {
										code |= 2
									}
									if neg.Encryption {
										code |= 4
									}
									if neg.Enact {
										code |= 8
									}
									li := ((lidx[lvlTerm(nc.SA)]*5+lidx[lvlTerm(nc.CA)])*5+lidx[lvlTerm(nc.SE)])*5 + lidx[lvlTerm(nc.CE)]
									if string(neg.NegotiatedAuth) != m0 || string(neg.NegotiatedCrypto) != k0 || (table[li] >= 0 && table[li] != code) {
										// strings of the same class behaving differently: keep the individual case
										bt.add(negTerm(nc), nc)
										continue
									}
									table[li] = code
								}
							}
						}
					}
					codes := make([]byte, 625)
					for i, v := range table {
						codes[i] = byte(v)
					}
					bt.flush()
					c.AddCaseW(fmt.Sprintf("[(CNegT %s %s %s %s %s %s %s %s %s)]", lvlTerm(si), lvlTerm(ci), methList(ms.s), methList(ms.c), ciphList(cs.s), ciphList(cs.c),
						methTerm(m0), ciphOpt(k0), core.Hex(codes)), negCase{Kind: "neg-table", SI: si, CI: ci, SM: ms.s, CM: ms.c, SC: cs.s, CC: cs.c}, 25)
				}
			}
		}
	}
	// list shapes (orders, duplicates, NONE, unimplemented, unknown names) under a level sample
	lists := [][]string{nil, {"CLAIMTOBE"}, {"FS"}, {"FS", "CLAIMTOBE"}, {"CLAIMTOBE", "FS"}, {"PASSWORD"}, {"PASSWORD", "CLAIMTOBE"},
		{"NONE"}, {"NONE", "FS"}, {"BOGUS"}, {"BOGUS", "TOKEN", "SSL"}, {"SSL", "TOKEN", "IDTOKENS", "SCITOKENS", "KERBEROS"},
		{"KERBEROS", "SCITOKENS", "FS", "FS"}, {"claimtobe"}}
	clists := [][]string{nil, {"AES"}, {"3DES"}, {"BLOWFISH", "AES"}, {"AES", "BLOWFISH"}, {"3DES", "AES"}, {"AES", "3DES"}, {"AESGCM"}, {"AESGCM", "AES"}, {"aes"}}
	lv := [][6]string{{"REQUIRED", "OPTIONAL", "REQUIRED", "OPTIONAL", "OPTIONAL", "REQUIRED"}, {"PREFERRED", "OPTIONAL", "OPTIONAL", "PREFERRED", "REQUIRED", "PREFERRED"},
		{"YES", "PREFERRED", "NO", "PREFERRED", "NO", "REQUIRED"}, {"NO", "REQUIRED", "YES", "REQUIRED", "NO", "NEVER"}, {"OPTIONAL", "OPTIONAL", "PREFERRED", "NEVER", "OPTIONAL", "OPTIONAL"}}
	for _, l := range lv {
		for _, sm := range lists {
			for _, cm := range lists {
				nc := negCase{"neg", l[0], l[1], l[2], l[3], l[4], l[5], sm, cm, []string{"AES"}, []string{"AES"}}
				bt.add(negTerm(nc), nc)
				c.Count("negotiateSecurity-method-lists")
			}
		}
		for _, sc := range clists {
			for _, cc := range clists {
				nc := negCase{"neg", l[0], l[1], l[2], l[3], l[4], l[5], []string{"FS"}, []string{"FS"}, sc, cc}
				bt.add(negTerm(nc), nc)
				c.Count("negotiateSecurity-cipher-lists")
			}
		}
	}
	// bitmask conversions: all single bits 2^0..2^20, 0, and multi-bit / negative values
	var vals []int64
	vals = append(vals, 0, -1, -2, 3, 6, 5, 4098, 4100, 6144, 1<<62, -(1 << 62))
	for k := 0; k <= 20; k++ {
		vals = append(vals, 1<<k, (1<<k)+1, (1<<k)|2)
	}
	for _, v := range vals {
		m := security.VerifBitmaskToAuthMethod(int(v))
		t := "None"
		if m != "" {
			t = "(Some " + methTerm(string(m)) + ")"
		}
		bt.add(fmt.Sprintf("(CBit %s %s)", core.Z(v), t), map[string]interface{}{"kind": "bit", "v": v})
		c.Count("bitmaskToAuthMethod")
	}
	for _, ms := range lists {
		var am []security.AuthMethod
		for _, m := range ms {
			am = append(am, security.AuthMethod(m))
		}
		b := security.VerifCreateClientAuthBitmask(am)
		bt.add(fmt.Sprintf("(CMask %s %s)", methList(ms), core.Z(int64(b))), map[string]interface{}{"kind": "mask", "ms": ms})
		c.Count("createClientAuthBitmask")
		for _, m := range ms {
			// round trip used by the retry loop: bit(m) and back
			bm := security.VerifAuthMethodToBitmask(security.AuthMethod(m))
			bt.add(fmt.Sprintf("(CMask %s %s)", methList([]string{m}), core.Z(int64(bm))), map[string]interface{}{"kind": "mask", "ms": []string{m}})
		}
	}
}

// ---------- (b) real client x real server ---------------------------------

type hsSpec struct {
	Kind string      `json:"kind"`
	C    peer.Policy `json:"c"`
	S    peer.Policy `json:"s"`
	Tok  bool        `json:"tok,omitempty"` // token world in play: the server holds the pool signing key, the client a token
	// what the client holds when Tok is set: "" = a usable token; "none" = no token at all;
	// "expired" = right issuer and key, exp in the past; "other-issuer" = signed for another trust
	// domain; "other-kid" = names a signing key the server does not have.
	CTok string `json:"ctok,omitempty"`
	// the server holds no signing key (a usable-looking token cannot be verified)
	SNoKey bool `json:"snokey,omitempty"`
	// The server's authenticator is built with SDef as its (connection default) config and a
	// ServerConfigForCommand hook: the hook returns S, the policy in force for the handshake --
	// or nil when SHookNil is set (then S repeats SDef: the default stays in force).  The table,
	// the model and the oracle speak about S only: the lists a server advertises and negotiates
	// with must be those of the policy in force.
	SDef     *peer.Policy `json:"sdef,omitempty"`
	SHookNil bool         `json:"shooknil,omitempty"`
}

// what the client's token pre-filter (hasCompatibleToken) must answer for this spec: the
// server's response ad carries its TrustDomain but no IssuerKeys, so a fresh token of the right
// issuer passes whatever key it names
func (sp hsSpec) tokKind() string {
	if !sp.Tok {
		return "none"
	}
	if sp.CTok == "" {
		return "good"
	}
	return sp.CTok
}
func (sp hsSpec) prefilterPasses() bool { k := sp.tokKind(); return k == "good" || k == "other-kid" }

// the token exchange can succeed between these two endpoints
func (sp hsSpec) tokenWorks() bool { return sp.tokKind() == "good" && !sp.SNoKey }

var (
	tokOnce  sync.Once
	tokWorld *peer.TokenWorld
	tokFiles = map[string]string{} // kind -> token file
)

// mintToken writes an HTCondor-format token (HS256 JWT) into the world's directory: header kid,
// issuer, expiry relative to now, signed with the key derived from key as NewTokenWorld does.
func mintToken(w *peer.TokenWorld, name, kid, iss string, expDelta int64, key []byte) string {
	b64 := base64.RawURLEncoding.EncodeToString
	hdr, _ := json.Marshal(map[string]interface{}{"alg": "HS256", "typ": "JWT", "kid": kid})
	now := time.Now().Unix()
	pl, _ := json.Marshal(map[string]interface{}{"sub": "alice@" + iss, "iss": iss, "iat": now - 7200, "exp": now + expDelta})
	data := b64(hdr) + "." + b64(pl)
	signing := append(append([]byte{}, key...), key...)
	jwtKey := make([]byte, 32)
	if _, err := io.ReadFull(hkdf.New(sha256.New, signing, []byte("htcondor"), []byte("master jwt")), jwtKey); err != nil {
		panic(err)
	}
	mac := hmac.New(sha256.New, jwtKey)
	mac.Write([]byte(data))
	path := filepath.Join(w.Dir, name)
	if err := os.WriteFile(path, []byte(data+"."+b64(mac.Sum(nil)[:32])+"\n"), 0o600); err != nil {
		panic(err)
	}
	return path
}

func world() *peer.TokenWorld {
	tokOnce.Do(func() {
		w, err := peer.NewTokenWorld("verif.local")
		if err != nil {
			panic(err)
		}
		tokWorld = w
		// the pool key as the world wrote it (HTCondor's scrambled on-disk form: XOR 0xdeadbeef)
		raw, err := os.ReadFile(w.PoolKeyFile)
		if err != nil {
			panic(err)
		}
		db := []byte{0xde, 0xad, 0xbe, 0xef}
		key := make([]byte, len(raw))
		for i := range raw {
			key[i] = raw[i] ^ db[i%4]
		}
		tokFiles["expired"] = mintToken(w, "expired.jwt", "POOL", w.Domain, -3600, key)
		tokFiles["other-issuer"] = mintToken(w, "otheriss.jwt", "POOL", "elsewhere.example", 7200, key)
		tokFiles["other-kid"] = mintToken(w, "otherkid.jwt", "NOSUCHKEY", w.Domain, 7200, []byte("another_pool_signing_key_32bytes"))
	})
	return tokWorld
}

// TOKEN and IDTOKENS are two names of one method (HTCondor's CAUTH_TOKEN)
func canon(m string) string {
	if m == "IDTOKENS" {
		return "TOKEN"
	}
	return m
}
func inListCanon(x string, l []string) bool {
	for _, y := range l {
		if canon(x) == canon(y) {
			return true
		}
	}
	return false
}

type hsObs struct {
	CErr, SErr, Denied       bool
	CClass                   string // class of the client's error (classify)
	DenialReason             bool   // the denial ad on the wire carries a non-empty ErrorString
	CMsgs, SMsgs             int    // cleartext messages each end put on the wire
	CHang, SHang             bool
	CAuth, SAuth, CEnc, SEnc bool
	CMeth, SMeth             string
	CReal, SReal             bool // Stream.IsEncrypted
	SidEq, KeyEq             bool
	KeyLen                   int
	Rounds                   [][2]int64
	RanOK                    string // method whose exchange completed on the wire ("" none)
	MsgOK                    bool
	Leak                     bool // a marker was visible in clear on the wire
	CmdsOK                   bool // the client's ValidCommands names the command it asked for
	WireErr                  string
	CErrText, SErrText       string
}

var markerC = []byte("C10-MARKER-client-to-server-0123456789")
var markerS = []byte("C10-MARKER-server-to-client-9876543210")

func parseAd(msg []byte, skipInt bool) (map[string]string, bool) {
	if skipInt {
		if len(msg) < 8 {
			return nil, false
		}
	}
	st := &mock.Stream{In: []mock.Frame{{Data: msg, EOM: true}}}
	m := message.NewMessageFromStream(st)
	ctx := context.Background()
	if skipInt {
		if _, err := m.GetInt(ctx); err != nil {
			return nil, false
		}
	}
	ad, err := m.GetClassAdWithMaxSize(ctx, 1<<16)
	if err != nil {
		return nil, false
	}
	out := map[string]string{}
	for _, k := range []string{"ReturnCode", "ErrorString", "Authentication", "Encryption", "AuthMethods", "AuthMethodsList", "CryptoMethods", "Sid"} {
		if s, ok := ad.EvaluateAttrString(k); ok {
			out[k] = s
		}
	}
	return out, true
}

// walkWire reconstructs the cleartext authentication phase from the tap with a
// small reference reading of the protocol: after the two security ads, while
// the server answered Authentication=YES, the client sends a bitmask, the
// server a reply; reply CLAIMTOBE(2) is followed by the claim and the
// acknowledgement, then the server's hasKey flag; PASSWORD(512) has no traffic.
func walkWire(tap *peer.Tap, o *hsObs) {
	msgs, pos := tap.OrderedMessages()
	cm, sm := msgs[0], msgs[1]
	cpos, spos := pos[0], pos[1]
	o.CMsgs, o.SMsgs = len(cm), len(sm)
	if len(sm) == 0 {
		return
	}
	ad, ok := parseAd(sm[0], false)
	if !ok {
		o.WireErr = "server ad unparsable"
		return
	}
	if rc := ad["ReturnCode"]; rc != "" && rc != "AUTHORIZED" {
		o.Denied = true
		o.DenialReason = ad["ErrorString"] != ""
		return
	}
	if ad["Authentication"] != "YES" {
		return
	}
	ci, si := 1, 1
	for ci < len(cm) {
		b, ok := peer.ReadInt64(cm[ci])
		ci++
		if !ok || b == 0 {
			if ok {
				o.Rounds = append(o.Rounds, [2]int64{0, -1})
			}
			return
		}
		if si >= len(sm) {
			return
		}
		r, ok := peer.ReadInt64(sm[si])
		si++
		if !ok {
			return
		}
		o.Rounds = append(o.Rounds, [2]int64{b, r})
		switch r {
		case 2: // CLAIMTOBE
			if ci >= len(cm) || si >= len(sm) {
				return
			}
			st, _ := peer.ReadInt64(cm[ci])
			ci++
			ack, _ := peer.ReadInt64(sm[si])
			si++
			if st == 1 && ack == 1 {
				o.RanOK = "CLAIMTOBE"
				return
			}
		case 4: // FS: server names a directory, client reports its mkdir, server reports its verification
			if si+1 >= len(sm) || ci >= len(cm) {
				return
			}
			cres, _ := peer.ReadInt64(cm[ci])
			ci++
			sres, ok := peer.ReadInt64(sm[si+1])
			si += 2
			if ok && cres == 0 && sres == 0 {
				o.RanOK = "FS"
				return
			}
		case 2048: // TOKEN / IDTOKENS (AKEP2): client step 1, server step 2, client step 3; after a
			// success the server's key-exchange message is next, after a failure the client's bitmask
			if ci+1 >= len(cm) || si >= len(sm) {
				return
			}
			ci += 2
			si++
			if si < len(sm) && (ci >= len(cm) || spos[si] < cpos[ci]) {
				o.RanOK = "TOKEN"
				return
			}
		case 0:
			return
		default: // PASSWORD and the like: nothing on the wire
		}
	}
}

// classify maps the client's handshake error to a small enum.  cedar's errors are fmt.Errorf
// values (one typed: AuthMethodsExhaustedError), so the class is read off the fixed prefix the
// failing step puts in front; no other part of the text is looked at.
func classify(err error) string {
	if err == nil {
		return ""
	}
	var ex *security.AuthMethodsExhaustedError
	if errors.As(err, &ex) {
		return "exhausted"
	}
	t := err.Error()
	switch {
	case strings.HasPrefix(t, "security negotiation rejected by server (DENIED)"):
		return "denied" // the server's denial ad arrived and is what the caller gets
	case strings.HasPrefix(t, "security negotiation rejected by server"):
		return "rejected-other"
	case strings.HasPrefix(t, "no compatible authentication methods found"):
		return "no-methods" // the client's own intersection / token pre-filter left nothing
	case strings.HasPrefix(t, "server requires authentication but provides no methods"):
		return "no-methods"
	case strings.HasPrefix(t, "failed to parse server response"):
		return "bare-close-1" // nothing readable came back for the client's ad
	case strings.HasPrefix(t, "failed to parse post-auth ClassAd"):
		return "bare-close-2" // the server went away at the end
	case strings.HasPrefix(t, "failed to setup stream encryption"):
		return "local-protection"
	case strings.HasPrefix(t, "security negotiation failed"):
		return "local-negotiation"
	case strings.HasPrefix(t, "client requires authentication but the server declined"):
		return "declined"
	}
	return "other"
}

func runHonest(sp hsSpec) hsObs {
	ca, sa, tap := peer.Pipe()
	var cr, sr peer.Result
	var wg sync.WaitGroup
	wg.Add(2)
	go func() {
		defer wg.Done()
		scfg := sp.S.Config()
		if sp.Tok && !sp.SNoKey {
			scfg = world().Server(scfg)
		}
		if sp.SDef != nil {
			dcfg := sp.SDef.Config()
			if sp.Tok && !sp.SNoKey {
				dcfg = world().Server(dcfg)
			}
			if sp.SHookNil {
				scfg = nil
			}
			sr = peer.RunServerPerCommand(sa, dcfg, scfg)
		} else {
			sr = peer.RunServer(sa, scfg)
		}
		if sr.Err != nil {
			sa.Close()
		}
	}()
	go func() {
		defer wg.Done()
		ccfg := sp.C.Config()
		switch k := sp.tokKind(); k {
		case "none":
		case "good":
			ccfg = world().Client(ccfg)
		default:
			ccfg = world().Client(ccfg)
			ccfg.TokenFile = tokFiles[k]
		}
		cr = peer.RunClient(ca, ccfg)
		if cr.Err != nil {
			ca.Close()
		}
	}()
	wg.Wait()
	o := hsObs{CErr: cr.Err != nil, SErr: sr.Err != nil, CHang: cr.Hang, SHang: sr.Hang}
	if cr.Err != nil {
		o.CErrText = cr.Err.Error()
		o.CClass = classify(cr.Err)
	}
	if sr.Err != nil {
		o.SErrText = sr.Err.Error()
	}
	walkWire(tap, &o)
	if cr.Err == nil && cr.Neg != nil {
		o.CAuth, o.CEnc, o.CMeth, o.CReal = cr.Neg.Authentication, cr.Neg.Encryption, string(cr.Neg.NegotiatedAuth), cr.Encrypted
	}
	if sr.Err == nil && sr.Neg != nil {
		o.SAuth, o.SEnc, o.SMeth, o.SReal = sr.Neg.Authentication, sr.Neg.Encryption, string(sr.Neg.NegotiatedAuth), sr.Encrypted
	}
	if cr.Err == nil && sr.Err == nil && cr.Neg != nil && sr.Neg != nil {
		o.SidEq = cr.Neg.SessionId != "" && cr.Neg.SessionId == sr.Neg.SessionId
		o.KeyEq = bytes.Equal(cr.Key, sr.Key)
		o.KeyLen = len(cr.Key)
		want := sp.C.Command
		if want < 0 {
			want = 60010 // DC_AUTHENTICATE stands in for an auth-only handshake
		}
		o.CmdsOK = cr.Neg.ValidCommands == fmt.Sprintf("%d", want)
		// a message each way, straight after
		off := tap.Len(true)
		offS := tap.Len(false)
		ok := true
		if err := peer.SendMarker(cr.Stream, markerC); err != nil {
			ok = false
		} else if got, err := peer.RecvMarker(sr.Stream, len(markerC)); err != nil || !bytes.Equal(got, markerC) {
			ok = false
		}
		if ok {
			if err := peer.SendMarker(sr.Stream, markerS); err != nil {
				ok = false
			} else if got, err := peer.RecvMarker(cr.Stream, len(markerS)); err != nil || !bytes.Equal(got, markerS) {
				ok = false
			}
		}
		o.MsgOK = ok
		o.Leak = tap.Contains(true, off, markerC) || tap.Contains(false, offS, markerS)
	}
	ca.Close()
	sa.Close()
	return o
}

// ---- the oracle: decision table written from the property text -------------

// a real authentication method this build implements (what the server can tell from the two lists)
func implementedMethod(m string) bool {
	switch m {
	case "FS", "IDTOKENS", "TOKEN", "SCITOKENS", "SSL", "KERBEROS", "CLAIMTOBE":
		return true
	}
	return false // PASSWORD (stub), NONE (no authentication), unknown names
}

// usableMethod: the method can really authenticate this client to this server in the harness
// world.  CLAIMTOBE and FS need no credential; TOKEN / IDTOKENS need a fresh token of the
// server's trust domain signed with a key the server holds; there are no certificates, SciTokens
// or Kerberos tickets.
func usableMethod(sp hsSpec) func(string) bool {
	return func(m string) bool {
		switch m {
		case "FS", "CLAIMTOBE":
			return true
		case "TOKEN", "IDTOKENS":
			return sp.tokenWorks()
		}
		return false
	}
}
func mutual(a, b []string, ok func(string) bool) bool {
	for _, x := range a {
		for _, y := range b {
			if x == y && ok(x) {
				return true
			}
		}
	}
	return false
}
func inList(x string, l []string) bool {
	for _, y := range l {
		if x == y {
			return true
		}
	}
	return false
}

type verdict struct {
	Fail, AuthRuns, ProtRequired bool
	// Stale: the property's table and the server's decision part ways: the server commits to
	// authentication on the strength of the two advertised lists (a listed common implemented
	// method) while no listed method is usable by this client (known finding
	// c10-late-unusable-method); nothing else makes the handshake fail
	Stale bool
}

func table(sp hsSpec) verdict {
	req := func(a, b string) bool { return a == "REQUIRED" || b == "REQUIRED" }
	nev := func(a, b string) bool { return a == "NEVER" || b == "NEVER" }
	pref := func(a, b string) bool { return a == "PREFERRED" || b == "PREFERRED" }
	integ := func(s string) string {
		if s == "" {
			return "OPTIONAL"
		}
		return s
	}
	ci, si := integ(sp.C.Integ), integ(sp.S.Integ)
	mm := mutual(sp.C.Methods, sp.S.Methods, usableMethod(sp))
	ml := mutual(sp.C.Methods, sp.S.Methods, implementedMethod)
	mc := mutual(sp.C.Ciphers, sp.S.Ciphers, func(c string) bool { return c == "AES" })
	v := verdict{}
	authReq, encReq, intReq := req(sp.C.Auth, sp.S.Auth), req(sp.C.Enc, sp.S.Enc), req(ci, si)
	// "fails exactly when one side requires what the other forbids or a required feature has no
	// mutually supported method": authentication needs a mutually usable method; encryption and
	// integrity are both provided by the one cipher cedar implements (AES-256-GCM)
	other := (authReq && nev(sp.C.Auth, sp.S.Auth)) || (encReq && nev(sp.C.Enc, sp.S.Enc)) || (intReq && nev(ci, si)) ||
		(encReq && !mc) || (intReq && !mc)
	v.Fail = other || (authReq && !mm)
	v.AuthRuns = authReq || (pref(sp.C.Auth, sp.S.Auth) && !nev(sp.C.Auth, sp.S.Auth) && mm)
	v.ProtRequired = encReq || intReq
	v.Stale = !other && ml && !mm && (authReq || (pref(sp.C.Auth, sp.S.Auth) && !nev(sp.C.Auth, sp.S.Auth)))
	return v
}

// judge returns "" when the run obeys the table, else a stable failure key + text.
func judge(sp hsSpec, o hsObs) (string, string) {
	v := table(sp)
	if o.CHang || o.SHang {
		return "hang", "handshake did not terminate"
	}
	if v.Stale {
		// known finding: exactly this and nothing else may happen in these cells -- both ends
		// fail, no exchange completed, no denial (the server had already answered YES), and the
		// client's error says that it has no method left
		if o.CErr && o.SErr && !o.Denied && o.RanOK == "" && (o.CClass == "no-methods" || o.CClass == "exhausted") {
			what := "a REQUIRED handshake fails without the server's denial"
			if !v.Fail {
				what = "a PREFERRED handshake fails instead of proceeding unauthenticated"
			}
			return "late-unusable-method", "the only commonly listed implemented methods are unusable for this client (token pre-filter / run-time failure) and the server had already committed to authentication: " + what + " (client error class " + o.CClass + ")"
		}
		return "stale-offer-unexpected", fmt.Sprintf("cell of the known finding c10-late-unusable-method behaves differently from the finding: client err=%q (%s) server err=%q denied=%v ran=%q", o.CErrText, o.CClass, o.SErrText, o.Denied, o.RanOK)
	}
	if v.Fail {
		if !o.CErr || !o.SErr {
			return "should-fail", fmt.Sprintf("table says the handshake must fail; client err=%v server err=%v", o.CErr, o.SErr)
		}
		if !o.Denied {
			return "no-explicit-denial", "handshake failed but the client received no explicit denial (ReturnCode) from the server: " + o.CErrText
		}
		if o.CClass != "denied" {
			return "denial-not-surfaced", "the server's denial (ReturnCode=DENIED) was on the wire but the client's error is not the server's denial: " + o.CErrText
		}
		if !o.DenialReason {
			return "denial-without-reason", "the server's denial ad carries no ErrorString"
		}
		if o.SMsgs != 1 || o.CMsgs != 1 {
			return "denial-not-final", fmt.Sprintf("after a denial nothing else may be exchanged: client sent %d messages, server %d", o.CMsgs, o.SMsgs)
		}
		return "", ""
	}
	if o.CErr || o.SErr {
		return "should-succeed", fmt.Sprintf("table says the handshake must succeed; client err=%q server err=%q", o.CErrText, o.SErrText)
	}
	if o.CAuth != o.SAuth {
		return "auth-disagree", fmt.Sprintf("client reports Authentication=%v, server %v (on the wire: %q)", o.CAuth, o.SAuth, o.RanOK)
	}
	if o.SAuth != v.AuthRuns || (o.RanOK != "") != v.AuthRuns {
		return "auth-table", fmt.Sprintf("table says authentication runs=%v; reported %v, on the wire %q", v.AuthRuns, o.SAuth, o.RanOK)
	}
	if v.AuthRuns {
		// TOKEN and IDTOKENS are two names of the one method the wire calls CAUTH_TOKEN:
		// each end reports the name it listed
		if canon(o.CMeth) != o.RanOK || canon(o.SMeth) != o.RanOK {
			return "method-disagree", fmt.Sprintf("method on the wire %q, client reports %q, server %q", o.RanOK, o.CMeth, o.SMeth)
		}
		if !inList(o.CMeth, sp.C.Methods) || !inList(o.SMeth, sp.S.Methods) {
			return "method-not-own", fmt.Sprintf("client reports %q (lists %v), server reports %q (lists %v)", o.CMeth, sp.C.Methods, o.SMeth, sp.S.Methods)
		}
		if !inListCanon(o.RanOK, sp.C.Methods) || !inListCanon(o.RanOK, sp.S.Methods) {
			return "method-not-mutual", "method run is not in both lists: " + o.RanOK
		}
		if !usableMethod(sp)(o.CMeth) {
			return "method-not-usable", "the method reported as run cannot have authenticated this client: " + o.CMeth
		}
	}
	if o.CEnc != o.SEnc || o.CReal != o.SReal || o.CEnc != o.CReal {
		return "enc-disagree", fmt.Sprintf("Encryption reported client=%v server=%v, streams really encrypted client=%v server=%v", o.CEnc, o.SEnc, o.CReal, o.SReal)
	}
	if v.ProtRequired && !o.CReal {
		return "enc-required", "encryption or integrity required by one side but the stream is not protected (AES-GCM off)"
	}
	if !o.SidEq {
		return "sid", "session ids differ or are empty"
	}
	if !o.KeyEq || (o.CReal && o.KeyLen != 32) {
		return "key", "the two ends do not hold the same key"
	}
	if !o.CmdsOK {
		return "valid-commands", "the client's session does not list the command it authenticated for"
	}
	if !o.MsgOK {
		return "msg", "a message each way straight after the handshake failed"
	}
	if o.CReal && o.Leak {
		return "leak", "encrypted session but the payload was visible in clear on the wire"
	}
	if !o.CReal && !o.Leak {
		return "leak-inv", "plaintext session but the payload was not visible in clear"
	}
	return "", ""
}

func roundsTerm(r [][2]int64) string {
	var t []string
	for _, x := range r {
		t = append(t, core.Pair(core.Z(x[0]), core.Z(x[1])))
	}
	return core.List(t)
}

func hsTerm(sp hsSpec, o hsObs) string {
	// outcome: 0 ok / 1 failed with explicit denial / 2 failed otherwise (client, server flags kept)
	out := 0
	if o.CErr || o.SErr {
		out = 2
		if o.Denied && o.CClass == "denied" && o.CErr && o.SErr {
			out = 1
		}
	}
	integ := func(s string) string {
		if s == "" {
			return "OPTIONAL"
		}
		return s
	}
	return fmt.Sprintf("(CHs %s %s %s %s %s %s %s %s %s %s %s %s %d %s %s %s %s %s %s %s %s %s %s)",
		core.Bool(sp.prefilterPasses()), core.Bool(sp.tokenWorks()), lvlTerm(sp.S.Auth), lvlTerm(sp.C.Auth), lvlTerm(sp.S.Enc), lvlTerm(sp.C.Enc), lvlTerm(integ(sp.S.Integ)), lvlTerm(integ(sp.C.Integ)),
		methList(sp.S.Methods), methList(sp.C.Methods), ciphList(sp.S.Ciphers), ciphList(sp.C.Ciphers),
		out, core.Bool(o.CErr), core.Bool(o.SErr),
		core.Bool(o.CAuth), core.Bool(o.SAuth), core.Bool(o.CEnc), core.Bool(o.SEnc),
		methTerm(o.CMeth), methTerm(o.SMeth), core.Bool(o.CReal && o.SReal), roundsTerm(o.Rounds))
}

func defaultNames() []string {
	var out []string
	for _, m := range security.DefaultAuthMethods() {
		out = append(out, string(m))
	}
	return out
}

type mshape struct {
	Name string
	C, S []string
}

func genHonest(c *core.Ctx) error {
	mshapes := []mshape{
		{"same", []string{"CLAIMTOBE"}, []string{"CLAIMTOBE"}},
		{"overlap-srv-prefers-usable", []string{"PASSWORD", "CLAIMTOBE"}, []string{"CLAIMTOBE", "PASSWORD"}},
		{"overlap-srv-prefers-unimplemented", []string{"CLAIMTOBE", "PASSWORD"}, []string{"PASSWORD", "CLAIMTOBE"}},
		{"disjoint", []string{"CLAIMTOBE"}, []string{"PASSWORD", "FS"}},
		{"client-empty", nil, []string{"CLAIMTOBE"}},
		{"server-empty", []string{"CLAIMTOBE"}, nil},
		{"only-unimplemented-common", []string{"PASSWORD"}, []string{"PASSWORD"}},
		{"none-and-unknown", []string{"NONE", "BOGUS", "CLAIMTOBE"}, []string{"BOGUS", "NONE", "CLAIMTOBE"}},
		{"two-implemented-orders", []string{"CLAIMTOBE", "FS"}, []string{"FS", "CLAIMTOBE"}},
		// an endpoint with no (usable) method at all against one listing the methods a
		// default configuration would have (FS, SSL, KERBEROS ...)
		{"client-nil-vs-defaults", nil, []string{"FS", "SSL", "CLAIMTOBE"}},
		{"client-emptyslice", []string{}, []string{"FS"}},
		{"server-nil-vs-defaults", []string{"FS", "KERBEROS", "CLAIMTOBE"}, nil},
		{"client-all-unimplemented", []string{"PASSWORD", "BOGUS"}, []string{"FS", "PASSWORD", "CLAIMTOBE"}},
		{"duplicates-both-sides", []string{"CLAIMTOBE", "CLAIMTOBE", "FS", "FS"}, []string{"FS", "FS", "CLAIMTOBE", "CLAIMTOBE"}},
		// the one common method named twice by the client: its bit must
		// still be offered exactly as that bit
		{"client-names-common-method-twice", []string{"CLAIMTOBE", "CLAIMTOBE"}, []string{"CLAIMTOBE"}},
		{"client-names-fs-twice", []string{"FS", "PASSWORD", "FS"}, []string{"FS", "FS"}},
	}
	cshapes := []mshape{
		{"common", []string{"AES"}, []string{"AES"}},
		{"none", []string{"AES"}, nil},
		{"orders", []string{"AES", "3DES"}, []string{"3DES", "AES"}},
		{"only-unimplemented-common", []string{"BLOWFISH"}, []string{"BLOWFISH", "3DES"}},
	}
	if c.Quick() {
		// quick tier: the two shapes of the property text in full, the other two on a third of the cells
	}
	var specs []hsSpec
	cell := 0
	for _, ca := range fourLevels {
		for _, sa := range fourLevels {
			for _, ce := range fourLevels {
				for _, se := range fourLevels {
					cell++
					for mi, ms := range mshapes {
						for ci, cs := range cshapes {
							if c.Quick() && ci >= 2 && (cell+mi)%4 != 0 {
								continue
							}
							if c.Quick() && mi >= 9 && ci == 1 && (cell+mi)%2 != 0 {
								continue // quick: the empty / unimplemented / duplicate shapes without a cipher on half of the cells
							}
							for _, cmd := range []int{security.NoCommand, 60007} {
								if c.Quick() && (cell+mi+ci+cmd)%2 == 0 {
									continue // quick: alternate command present / auth-only
								}
								// Integrity is outside the table but inside the configuration: rotate
								// each side over the non-REQUIRED levels so that no cell is only ever
								// run with the default OPTIONAL
								ci3 := nonReqInteg[(cell+mi+2*ci)%3]
								si3 := nonReqInteg[(cell/3+mi+ci)%3]
								specs = append(specs, hsSpec{Kind: "hs", C: peer.Policy{Auth: ca, Enc: ce, Integ: ci3, Methods: ms.C, Ciphers: cs.C, Command: cmd}, S: peer.Policy{Auth: sa, Enc: se, Integ: si3, Methods: ms.S, Ciphers: cs.S}})
							}
						}
					}
				}
			}
		}
	}
	// Integrity on both sides: all 4^2 pairs x all 4^2 Encryption pairs x cipher common / none
	// (Integrity is provided by the AES-GCM cipher) x Authentication pairs (thorough: all 16,
	// i.e. the complete 4^6 matrix; quick: 4 per cell, rotating so that every pair occurs with
	// every Integrity pair), method shapes rotating over the first three
	icell := 0
	for _, ci := range fourLevels {
		for _, si := range fourLevels {
			for _, ce := range fourLevels {
				for _, se := range fourLevels {
					icell++
					for ai := 0; ai < 16; ai++ {
						if c.Quick() && (ai+icell)%4 != 0 {
							continue
						}
						ca, sa := fourLevels[ai/4], fourLevels[ai%4]
						for k, cs := range cshapes[:2] {
							ms := mshapes[(icell+ai+k)%3]
							cmd := 60007
							if (icell+ai)%5 == 0 {
								cmd = security.NoCommand
							}
							specs = append(specs, hsSpec{Kind: "hs", C: peer.Policy{Auth: ca, Enc: ce, Integ: ci, Methods: ms.C, Ciphers: cs.C, Command: cmd}, S: peer.Policy{Auth: sa, Enc: se, Integ: si, Methods: ms.S, Ciphers: cs.S}})
						}
					}
				}
			}
		}
	}
	// token methods really running (both ends hold a usable token / signing key): IDTOKENS and
	// TOKEN alone, next to SCITOKENS / FS, the default method list on both sides, and the two
	// names of the token method mixed
	tshapes := []mshape{
		{"idtokens", []string{"IDTOKENS"}, []string{"IDTOKENS"}},
		{"idtokens-scitokens", []string{"IDTOKENS", "SCITOKENS"}, []string{"IDTOKENS", "SCITOKENS"}},
		{"idtokens-fs", []string{"IDTOKENS", "FS"}, []string{"IDTOKENS", "FS"}},
		{"defaults-both", defaultNames(), defaultNames()},
		{"token", []string{"TOKEN"}, []string{"TOKEN"}},
		{"token-fs-orders", []string{"TOKEN", "FS"}, []string{"FS", "TOKEN"}},
		{"token-alias-names", []string{"IDTOKENS"}, []string{"TOKEN", "IDTOKENS"}},
		{"token-alias-client-both", []string{"IDTOKENS", "TOKEN"}, []string{"TOKEN"}},
	}
	tcell := 0
	for _, ca := range fourLevels {
		for _, sa := range fourLevels {
			for _, ce := range fourLevels {
				for _, se := range fourLevels {
					tcell++
					for ti, ts := range tshapes {
						if c.Quick() && (tcell+ti)%2 != 0 {
							continue
						}
						cs := cshapes[(tcell+ti)%2*1]
						if (tcell/2+ti)%3 == 0 {
							cs = cshapes[1]
						}
						specs = append(specs, hsSpec{Kind: "hs", Tok: true,
							C: peer.Policy{Auth: ca, Enc: ce, Integ: nonReqInteg[(tcell+ti)%3], Methods: ts.C, Ciphers: cs.C, Command: 60007},
							S: peer.Policy{Auth: sa, Enc: se, Integ: nonReqInteg[(tcell/3+ti)%3], Methods: ts.S, Ciphers: cs.S}})
					}
				}
			}
		}
	}
	// the client's token pre-filter: a client that lists TOKEN / IDTOKENS but holds no token, an
	// expired one, one of another issuer (all withdrawn by hasCompatibleToken after the server has
	// decided), one naming a signing key the server does not have, or a good one against a server
	// without its signing key (both offered, the exchange fails) -- all 4^2 Authentication pairs,
	// Encryption / Integrity / cipher rotating
	pshapes := []mshape{
		{"prefilter-token-only", []string{"TOKEN"}, []string{"TOKEN"}},
		{"prefilter-idtokens-fs-fallback", []string{"IDTOKENS", "FS"}, []string{"IDTOKENS", "FS"}},
		{"prefilter-token-password", []string{"TOKEN", "PASSWORD"}, []string{"PASSWORD", "TOKEN"}},
		{"prefilter-srv-prefers-token", []string{"CLAIMTOBE", "TOKEN"}, []string{"TOKEN", "CLAIMTOBE"}},
		{"prefilter-both-names", []string{"TOKEN", "IDTOKENS"}, []string{"IDTOKENS"}},
	}
	type tkind struct {
		ctok   string
		snokey bool
	}
	encRot := [][5]string{{"OPTIONAL", "OPTIONAL", "OPTIONAL", "OPTIONAL", "c"}, {"REQUIRED", "OPTIONAL", "PREFERRED", "OPTIONAL", "c"},
		{"PREFERRED", "NEVER", "NEVER", "OPTIONAL", "n"}, {"OPTIONAL", "PREFERRED", "OPTIONAL", "REQUIRED", "c"}, {"NEVER", "OPTIONAL", "OPTIONAL", "PREFERRED", "n"}}
	pi := 0
	for _, tk := range []tkind{{"none", false}, {"expired", false}, {"other-issuer", false}, {"other-kid", false}, {"", true}} {
		for _, ps := range pshapes {
			for _, ca := range fourLevels {
				for _, sa := range fourLevels {
					pi++
					e := encRot[pi%len(encRot)]
					cs := cshapes[0]
					if e[4] == "n" {
						cs = cshapes[1]
					}
					specs = append(specs, hsSpec{Kind: "hs", Tok: true, CTok: tk.ctok, SNoKey: tk.snokey,
						C: peer.Policy{Auth: ca, Enc: e[0], Integ: e[2], Methods: ps.C, Ciphers: cs.C, Command: 60007},
						S: peer.Policy{Auth: sa, Enc: e[1], Integ: e[3], Methods: ps.S, Ciphers: cs.S}})
				}
			}
		}
	}
	// per-command policies (ServerConfigForCommand): the policy in force differs from the
	// authenticator's default in its method and cipher LISTS (not contained in / contained in /
	// disjoint from / a reordering of the default's, default empty), the levels of the default
	// rotating; the hook returning nil (default in force).  What the server advertises and
	// negotiates with must be the lists of the policy in force.
	type pcshape struct {
		name       string
		c          []string // client methods
		s, d       []string // per-command / default methods
		cc, sc, dc []string // ciphers likewise
	}
	aes := []string{"AES"}
	pcs := []pcshape{
		{"meths-not-contained", []string{"FS"}, []string{"FS", "CLAIMTOBE"}, []string{"CLAIMTOBE"}, aes, aes, aes},
		{"meths-contained", []string{"FS", "CLAIMTOBE"}, []string{"CLAIMTOBE"}, []string{"FS", "CLAIMTOBE"}, aes, aes, aes},
		{"meths-disjoint", []string{"FS", "CLAIMTOBE"}, []string{"FS"}, []string{"CLAIMTOBE"}, aes, aes, aes},
		{"meths-disjoint-client-default-only", []string{"CLAIMTOBE"}, []string{"FS"}, []string{"CLAIMTOBE"}, aes, aes, aes},
		{"meths-reordered", []string{"CLAIMTOBE", "FS"}, []string{"CLAIMTOBE", "FS"}, []string{"FS", "CLAIMTOBE"}, aes, aes, aes},
		{"meths-default-empty", []string{"CLAIMTOBE"}, []string{"CLAIMTOBE"}, nil, aes, aes, aes},
		{"meths-percmd-stub-default-usable", []string{"PASSWORD", "CLAIMTOBE"}, []string{"PASSWORD"}, []string{"CLAIMTOBE"}, aes, aes, aes},
		{"ciphers-default-other", []string{"CLAIMTOBE"}, []string{"CLAIMTOBE"}, []string{"CLAIMTOBE"}, aes, aes, []string{"BLOWFISH"}},
		{"ciphers-percmd-none-default-aes", []string{"CLAIMTOBE"}, []string{"CLAIMTOBE"}, []string{"CLAIMTOBE"}, aes, nil, aes},
		{"ciphers-percmd-aes-default-none", []string{"CLAIMTOBE"}, []string{"CLAIMTOBE"}, []string{"CLAIMTOBE"}, aes, aes, nil},
		{"ciphers-reordered", []string{"CLAIMTOBE"}, []string{"CLAIMTOBE"}, []string{"CLAIMTOBE"}, []string{"3DES", "AES"}, []string{"AES", "3DES"}, []string{"3DES", "AES"}},
		{"both-differ", []string{"FS"}, []string{"FS"}, []string{"CLAIMTOBE", "PASSWORD"}, aes, []string{"BLOWFISH", "AES"}, []string{"BLOWFISH"}},
	}
	pcEnc := [][2]string{{"OPTIONAL", "OPTIONAL"}, {"REQUIRED", "OPTIONAL"}, {"OPTIONAL", "REQUIRED"}, {"PREFERRED", "PREFERRED"}}
	pcn := 0
	for _, ps := range pcs {
		for _, ca := range fourLevels {
			for _, sa := range fourLevels {
				for ei, e := range pcEnc {
					pcn++
					if c.Quick() && (pcn/4+ei)%2 != 0 {
						continue
					}
					// the default's own levels rotate over all four names: they must not matter
					def := &peer.Policy{Auth: fourLevels[pcn%4], Enc: fourLevels[(pcn/4)%4], Integ: nonReqInteg[pcn%3], Methods: ps.d, Ciphers: ps.dc}
					specs = append(specs, hsSpec{Kind: "hs", SDef: def,
						C: peer.Policy{Auth: ca, Enc: e[0], Integ: "OPTIONAL", Methods: ps.c, Ciphers: ps.cc, Command: 60007},
						S: peer.Policy{Auth: sa, Enc: e[1], Integ: "OPTIONAL", Methods: ps.s, Ciphers: ps.sc}})
					if pcn%8 < 2 { // the hook declines: the default is the policy in force
						d2 := *def
						d2.Auth, d2.Enc, d2.Integ = sa, e[1], "OPTIONAL"
						specs = append(specs, hsSpec{Kind: "hs", SDef: &d2, SHookNil: true,
							C: peer.Policy{Auth: ca, Enc: e[0], Integ: "OPTIONAL", Methods: ps.c, Ciphers: ps.cc, Command: 60007}, S: d2})
					}
				}
			}
		}
	}
	// cipher names: AES-256-GCM goes by the name "AES" on a freshly negotiated session; "AESGCM"
	// (the name inherited sessions record), other spellings, the unimplemented ciphers and unknown
	// names in both orders on both sides, all 4^2 Encryption pairs (REQUIRED on either side
	// included) x two Authentication pairs
	type cshape2 struct{ c, s []string }
	css := []cshape2{
		{[]string{"AES"}, []string{"AESGCM", "AES"}}, {[]string{"AES"}, []string{"AES", "AESGCM"}},
		{[]string{"AESGCM", "AES"}, []string{"AES"}}, {[]string{"AES", "AESGCM"}, []string{"AESGCM"}},
		{[]string{"AESGCM"}, []string{"AESGCM"}}, {[]string{"AESGCM"}, []string{"AES"}},
		{[]string{"aes"}, []string{"AES"}}, {[]string{"AES"}, []string{"aes", "AES"}},
		{[]string{"AES-GCM", "AES"}, []string{"AES-GCM", "AES"}}, {[]string{"BLOWFISH", "AES"}, []string{"3DES", "BLOWFISH", "AES"}},
		{[]string{"FOO", "AES"}, []string{"AES", "FOO"}}, {[]string{"3DES", "AESGCM"}, []string{"AESGCM", "3DES"}},
	}
	csn := 0
	for _, cs := range css {
		for _, ce := range fourLevels {
			for _, se := range fourLevels {
				for ai, a := range [][2]string{{"OPTIONAL", "OPTIONAL"}, {"REQUIRED", "PREFERRED"}} {
					csn++
					if c.Quick() && ce != "REQUIRED" && se != "REQUIRED" && (csn/2+ai)%2 != 0 {
						continue
					}
					specs = append(specs, hsSpec{Kind: "hs",
						C: peer.Policy{Auth: a[0], Enc: ce, Integ: nonReqInteg[csn%3], Methods: []string{"CLAIMTOBE"}, Ciphers: cs.c, Command: 60007},
						S: peer.Policy{Auth: a[1], Enc: se, Integ: nonReqInteg[(csn/3)%3], Methods: []string{"CLAIMTOBE"}, Ciphers: cs.s}})
				}
			}
		}
	}
	// ... and the same lists with no token world at all (Tok unset: no token, no signing key)
	for _, ps := range pshapes[:2] {
		for _, ca := range fourLevels {
			for _, sa := range fourLevels {
				specs = append(specs, hsSpec{Kind: "hs",
					C: peer.Policy{Auth: ca, Enc: "OPTIONAL", Integ: "OPTIONAL", Methods: ps.C, Ciphers: []string{"AES"}, Command: 60007},
					S: peer.Policy{Auth: sa, Enc: "OPTIONAL", Integ: "OPTIONAL", Methods: ps.S, Ciphers: []string{"AES"}}})
			}
		}
	}
	obs := make([]hsObs, len(specs))
	// cedar's FS server prints a warning for every directory the client already
	// removed; keep that noise out of the check's log
	if devnull, err := os.OpenFile(os.DevNull, os.O_WRONLY, 0); err == nil {
		saved := os.Stdout
		os.Stdout = devnull
		defer func() { os.Stdout = saved; devnull.Close() }()
	}
	var wg sync.WaitGroup
	sem := make(chan struct{}, runtime.NumCPU())
	for i := range specs {
		wg.Add(1)
		sem <- struct{}{}
		go func(i int) {
			defer wg.Done()
			defer func() { <-sem }()
			obs[i] = runHonest(specs[i])
		}(i)
		if i%512 == 0 {
			security.GetSessionCache().Clear()
		}
	}
	wg.Wait()
	fails := map[string]int{}
	for i, sp := range specs {
		o := obs[i]
		c.OracleCheck()
		if key, txt := judge(sp, o); key != "" {
			fails[key]++
			if fails[key] <= 3 {
				c.OracleFail("c10-"+key, fmt.Sprintf("%s: client{%s/%s %v %v} server{%s/%s %v %v}", txt,
					sp.C.Auth, sp.C.Enc, sp.C.Methods, sp.C.Ciphers, sp.S.Auth, sp.S.Enc, sp.S.Methods, sp.S.Ciphers), sp)
			}
		}
		bt.add(hsTerm(sp, o), sp)
		switch {
		case !o.CErr && !o.SErr:
			c.Count(fmt.Sprintf("hs-ok auth=%v enc=%v", o.SAuth, o.SReal))
			c.Nontrivial(fmt.Sprint(sp.C.Auth, sp.S.Auth, sp.C.Enc, sp.S.Enc, sp.C.Methods, sp.S.Methods, sp.C.Ciphers, sp.S.Ciphers))
		case o.Denied:
			c.Count("hs-denied")
			if integ := func(x string) bool { return x == "REQUIRED" }; integ(sp.C.Integ) || integ(sp.S.Integ) {
				c.Count("hs-denied integrity-required-cell")
			}
		default:
			c.Count("hs-failed-other class=" + o.CClass)
		}
		if sp.SDef != nil {
			c.Count(fmt.Sprintf("hs-per-command-policy hook-nil=%v", sp.SHookNil))
		}
		if sp.Tok && (sp.CTok != "" || sp.SNoKey) {
			c.Count("hs-token-prefilter kind=" + sp.tokKind() + fmt.Sprintf(" nokey=%v", sp.SNoKey))
		}
		if len(o.Rounds) > 1 {
			c.Count("hs-retry-rounds>1")
		}
		if i%997 == 0 {
			c.Sample(map[string]interface{}{"spec": sp, "client_err": o.CErr, "server_err": o.SErr, "auth": o.SAuth, "enc": o.SReal, "rounds": o.Rounds})
		}
	}
	ks := make([]string, 0, len(fails))
	for k := range fails {
		ks = append(ks, k)
	}
	sort.Strings(ks)
	for _, k := range ks {
		c.Note(fmt.Sprintf("oracle failures %s: %d", k, fails[k]))
	}
	return nil
}

// runCorpus replays the minimised past disagreements kept in /verif/corpus/C10
// (witnesses of the defects found so far) before anything is generated.
func runCorpus(c *core.Ctx) {
	exe, err := os.Executable()
	if err != nil {
		return
	}
	dir := filepath.Join(filepath.Dir(filepath.Dir(exe)), "corpus", "C10")
	if d := os.Getenv("VERIF_CORPUS"); d != "" {
		dir = d
	}
	files, _ := filepath.Glob(filepath.Join(dir, "*.json"))
	sort.Strings(files)
	for _, f := range files {
		raw, err := os.ReadFile(f)
		if err != nil {
			continue
		}
		c.OracleCheck()
		c.Evaluated(1)
		c.Count("corpus")
		if strings.HasPrefix(filepath.Base(f), "finding-late-unusable-method-") {
			// witnesses of the known finding (C10_token_refuted): they must keep behaving exactly as
			// the finding says; anything else (a fix included) is reported, so that the notes,
			// the theorem and known_findings.txt are revisited
			var sp hsSpec
			if json.Unmarshal(raw, &sp) != nil {
				continue
			}
			if key, txt := judge(sp, runHonest(sp)); key != "late-unusable-method" {
				c.OracleFail("c10-corpus", fmt.Sprintf("witness %s of finding c10-late-unusable-method no longer behaves as recorded: %q %s", filepath.Base(f), key, txt), json.RawMessage(raw))
			} else {
				c.Count("corpus finding witnessed")
			}
			continue
		}
		if err := replay(json.RawMessage(raw)); err != nil {
			c.OracleFail("c10-corpus", fmt.Sprintf("corpus case %s: %v", filepath.Base(f), err), json.RawMessage(raw))
		}
	}
}

func gen(c *core.Ctx) error {
	peer.Quiet()
	runCorpus(c)
	bt = &batcher{c: c, n: 6}
	genNegotiate(c)
	if err := genHonest(c); err != nil {
		return err
	}
	bt.flush()
	c.Rule("every run of real client x real server must obey the decision table written from the property text over the three features Authentication / Encryption / Integrity (fail iff REQUIRED meets NEVER or a REQUIRED feature has no mutually usable method -- for the token family: the client holds a usable token; for Encryption and Integrity: AES -- and then: the server's denial ad with a reason is the only thing the server sends, and the client's error is that denial; else success, authentication runs iff required or preferred-not-forbidden-with-mutual-usable-method, AES-GCM on when Encryption or Integrity is required, both ends agree on auth/enc/method/sid/key, a message each way works); in the stale-offer cells of finding c10-late-unusable-method exactly the recorded behaviour; every negotiateSecurity/bitmask result and every handshake outcome must equal Model/Negotiate.v")
	c.Exhaustive(!c.Quick())
	c.Assume("negotiateSecurity is run exhaustively over (4 names + YES + NO + garbage)^4 Authentication/Encryption strings x (4 names + NO)^2 Integrity strings x method found/none x cipher found/none on every tier; real handshakes: quick runs a rotating quarter of the 4^6 Integrity block and half of the token shapes, thorough all of them")
	c.Assume("authentication sub-protocols exercised: CLAIMTOBE, FS, TOKEN/IDTOKENS with a usable token (succeed), TOKEN/IDTOKENS with no / an expired / a foreign-issuer token (withdrawn by the client's pre-filter), with a token naming an unknown signing key or against a server without its key (offered, fail at run time), PASSWORD (unimplemented, fails); SSL, SCITOKENS, KERBEROS are never the method selected (no certificates / KDC offline)")
	return nil
}

func replay(raw json.RawMessage) error {
	peer.Quiet()
	var bd struct {
		Batch []json.RawMessage `json:"batch"`
	}
	if json.Unmarshal(raw, &bd) == nil && len(bd.Batch) > 0 {
		for _, x := range bd.Batch {
			if err := replay(x); err != nil {
				return err
			}
		}
		return nil
	}
	var sp hsSpec
	if err := json.Unmarshal(raw, &sp); err != nil {
		return err
	}
	if sp.Kind != "hs" {
		return nil
	}
	o := runHonest(sp)
	if key, txt := judge(sp, o); key != "" {
		return fmt.Errorf("%s: %s", key, txt)
	}
	return nil
}

var _ = strings.Join

func main() { core.Main("C10", gen, replay) }
