// vh-c10: correspondence + oracle for C10 (honest peers negotiate by the policy
// table and agree on the result).
//
//	(a) exhaustive correspondence of negotiateSecurity (hook) over level strings
//	    (the four names plus the YES/NO/garbage strings the client feeds it) x
//	    method/cipher list shapes; bitmask conversions over all single bits and a
//	    sweep of multi-bit values;
//	(b) the real ClientHandshake against the real ServerHandshake over an
//	    in-memory tapped connection for every cell of the 4^4 matrix x list
//	    shapes x cipher shapes x command present/auth-only, followed by a
//	    message each way.  Every run is judged by an independently written
//	    decision table (the oracle, from the property text) and recorded as a
//	    Coq case evaluated against Model/Negotiate.v.
package main

import (
	"bytes"
	"context"
	"encoding/json"
	"fmt"
	"os"
	"path/filepath"
	"runtime"
	"sort"
	"strings"
	"sync"

	"verifharness/core"
	"verifharness/mock"
	"verifharness/peer"

	"github.com/bbockelm/cedar/message"
	"github.com/bbockelm/cedar/security"
)

// ---------- Coq term printers ---------------------------------------------

func lvlTerm(s string) string {
	switch s {
	case "REQUIRED":
		return "Rq"
	case "PREFERRED":
		return "Pf"
	case "OPTIONAL":
		return "Op"
	case "NEVER":
		return "Nv"
	}
	return "Ot"
}

var methNames = map[string]string{"FS": "mFS", "IDTOKENS": "mIDT", "TOKEN": "mTOK", "SCITOKENS": "mSCI", "SSL": "mSSL",
	"KERBEROS": "mKRB", "CLAIMTOBE": "mCTB", "PASSWORD": "mPW", "NONE": "mNONE"}
var otherIdx = map[string]int{}

func other(s string) int {
	if k, ok := otherIdx[s]; ok {
		return k
	}
	k := len(otherIdx) + 1
	otherIdx[s] = k
	return k
}
func methTerm(s string) string {
	if t, ok := methNames[s]; ok {
		return t
	}
	return fmt.Sprintf("(mX %d)", other("m:"+s))
}
func ciphTerm(s string) string {
	switch s {
	case "AES":
		return "cAES"
	case "BLOWFISH":
		return "cBF"
	case "3DES":
		return "c3DES"
	}
	return fmt.Sprintf("(cX %d)", other("c:"+s))
}
func methList(ms []string) string {
	var t []string
	for _, m := range ms {
		t = append(t, methTerm(m))
	}
	return core.List(t)
}
func ciphList(cs []string) string {
	var t []string
	for _, c := range cs {
		t = append(t, ciphTerm(c))
	}
	return core.List(t)
}
func ciphOpt(s string) string {
	if s == "" {
		return "None"
	}
	return "(Some " + ciphTerm(s) + ")"
}

// batcher groups runs into one Coq case (a list of case1 terms): Coq's start-up
// cost per case file dominates, so fewer, larger files are much faster.
type batcher struct {
	c     *core.Ctx
	n     int
	terms []string
	descs []interface{}
}

func (b *batcher) add(term string, desc interface{}) {
	b.terms = append(b.terms, term)
	b.descs = append(b.descs, desc)
	b.c.Evaluated(1)
	if len(b.terms) >= b.n {
		b.flush()
	}
}
func (b *batcher) flush() {
	if len(b.terms) == 0 {
		return
	}
	b.c.AddCase(core.List(b.terms), map[string]interface{}{"batch": b.descs})
	b.c.Evaluated(-1)
	b.terms, b.descs = nil, nil
}

var bt *batcher

// ---------- (a) negotiateSecurity correspondence --------------------------

type negCase struct {
	Kind           string   `json:"kind"`
	SA, CA, SE, CE string   `json:",omitempty"`
	SM, CM         []string `json:",omitempty"`
	SC, CC         []string `json:",omitempty"`
}

func mcfg(a, e string, ms, cs []string) *security.SecurityConfig {
	p := peer.Policy{Auth: a, Enc: e, Methods: ms, Ciphers: cs}
	cfg := p.Config()
	cfg.SessionCache = nil
	return cfg
}

func negTerm(nc negCase) string {
	neg, err := security.VerifNegotiateSecurity(mcfg(nc.CA, nc.CE, nc.CM, nc.CC), mcfg(nc.SA, nc.SE, nc.SM, nc.SC), false)
	return fmt.Sprintf("(CNeg %s %s %s %s %s %s %s %s %s %s %s %s %s %s)",
		lvlTerm(nc.SA), lvlTerm(nc.CA), lvlTerm(nc.SE), lvlTerm(nc.CE),
		methList(nc.SM), methList(nc.CM), ciphList(nc.SC), ciphList(nc.CC),
		core.Bool(err != nil), core.Bool(neg.Authentication), core.Bool(neg.Encryption), core.Bool(neg.Enact),
		methTerm(string(neg.NegotiatedAuth)), ciphOpt(string(neg.NegotiatedCrypto)))
}

var fourLevels = []string{"REQUIRED", "PREFERRED", "OPTIONAL", "NEVER"}
var nonReqInteg = []string{"OPTIONAL", "NEVER", "PREFERRED"}

func genNegotiate(c *core.Ctx) {
	garbage := []string{"", "required", "Required", "TRUE", "REQUIRED ", "ALWAYS", "never"}
	type mshape struct{ s, c []string }
	mshapes := []mshape{
		{[]string{"CLAIMTOBE"}, []string{"CLAIMTOBE"}},
		{[]string{"FS"}, []string{"CLAIMTOBE"}},
	}
	cshapes := []mshape{
		{[]string{"AES"}, []string{"AES"}},
		{[]string{"AES"}, nil},
	}
	// exhaustive over 7^4 level strings per list shape, packed: one case per shape
	// carrying (levels in base 5, outcome bits) rows; NegotiatedAuth/Crypto depend
	// on the lists only and are compared once (rows where they differ are emitted
	// as individual cases).
	n := 0
	seven := append(append([]string{}, fourLevels...), "YES", "NO", "G")
	lidx := map[string]int{"Rq": 0, "Pf": 1, "Op": 2, "Nv": 3, "Ot": 4}
	for _, ms := range mshapes {
		for _, cs := range cshapes {
			table := make([]int, 625)
			for i := range table {
				table[i] = -1
			}
			m0, k0 := "", ""
			first := true
			for _, sa := range seven {
				for _, ca := range seven {
					for _, se := range seven {
						for _, ce := range seven {
							g := func(s string) string {
								if s == "G" {
									n++
									return garbage[n%len(garbage)]
								}
								return s
							}
							nc := negCase{"neg", g(sa), g(ca), g(se), g(ce), ms.s, ms.c, cs.s, cs.c}
							neg, err := security.VerifNegotiateSecurity(mcfg(nc.CA, nc.CE, nc.CM, nc.CC), mcfg(nc.SA, nc.SE, nc.SM, nc.SC), false)
							c.Count("negotiateSecurity")
							c.Evaluated(1)
							if first {
								m0, k0, first = string(neg.NegotiatedAuth), string(neg.NegotiatedCrypto), false
							}
							code := 0
							if err != nil {
								code |= 1
							}
							if neg.Authentication {
								code |= 2
							}
							if neg.Encryption {
								code |= 4
							}
							if neg.Enact {
								code |= 8
							}
							li := ((lidx[lvlTerm(nc.SA)]*5+lidx[lvlTerm(nc.CA)])*5+lidx[lvlTerm(nc.SE)])*5 + lidx[lvlTerm(nc.CE)]
							if string(neg.NegotiatedAuth) != m0 || string(neg.NegotiatedCrypto) != k0 || (table[li] >= 0 && table[li] != code) {
								// strings of the same class behaving differently: keep the individual case
								bt.add(negTerm(nc), nc)
								continue
							}
							table[li] = code
						}
					}
				}
			}
			codes := make([]byte, 625)
			for i, v := range table {
				codes[i] = byte(v)
			}
			bt.flush()
			c.AddCaseW(fmt.Sprintf("[(CNegT %s %s %s %s %s %s %s)]", methList(ms.s), methList(ms.c), ciphList(cs.s), ciphList(cs.c),
				methTerm(m0), ciphOpt(k0), core.Hex(codes)), negCase{Kind: "neg-table", SM: ms.s, CM: ms.c, SC: cs.s, CC: cs.c}, 100)
		}
	}
	// list shapes (orders, duplicates, NONE, unimplemented, unknown names) under a level sample
	lists := [][]string{nil, {"CLAIMTOBE"}, {"FS"}, {"FS", "CLAIMTOBE"}, {"CLAIMTOBE", "FS"}, {"PASSWORD"}, {"PASSWORD", "CLAIMTOBE"},
		{"NONE"}, {"NONE", "FS"}, {"BOGUS"}, {"BOGUS", "TOKEN", "SSL"}, {"SSL", "TOKEN", "IDTOKENS", "SCITOKENS", "KERBEROS"},
		{"KERBEROS", "SCITOKENS", "FS", "FS"}, {"claimtobe"}}
	clists := [][]string{nil, {"AES"}, {"3DES"}, {"BLOWFISH", "AES"}, {"AES", "BLOWFISH"}, {"3DES", "AES"}, {"AES", "3DES"}, {"AESGCM"}, {"AESGCM", "AES"}, {"aes"}}
	lv := [][4]string{{"REQUIRED", "OPTIONAL", "REQUIRED", "OPTIONAL"}, {"PREFERRED", "OPTIONAL", "OPTIONAL", "PREFERRED"},
		{"YES", "PREFERRED", "NO", "PREFERRED"}, {"NO", "REQUIRED", "YES", "REQUIRED"}, {"OPTIONAL", "OPTIONAL", "PREFERRED", "NEVER"}}
	for _, l := range lv {
		for _, sm := range lists {
			for _, cm := range lists {
				nc := negCase{"neg", l[0], l[1], l[2], l[3], sm, cm, []string{"AES"}, []string{"AES"}}
				bt.add(negTerm(nc), nc)
				c.Count("negotiateSecurity-method-lists")
			}
		}
		for _, sc := range clists {
			for _, cc := range clists {
				nc := negCase{"neg", l[0], l[1], l[2], l[3], []string{"FS"}, []string{"FS"}, sc, cc}
				bt.add(negTerm(nc), nc)
				c.Count("negotiateSecurity-cipher-lists")
			}
		}
	}
	// bitmask conversions: all single bits 2^0..2^20, 0, and multi-bit / negative values
	var vals []int64
	vals = append(vals, 0, -1, -2, 3, 6, 5, 4098, 4100, 6144, 1<<62, -(1 << 62))
	for k := 0; k <= 20; k++ {
		vals = append(vals, 1<<k, (1<<k)+1, (1<<k)|2)
	}
	for _, v := range vals {
		m := security.VerifBitmaskToAuthMethod(int(v))
		t := "None"
		if m != "" {
			t = "(Some " + methTerm(string(m)) + ")"
		}
		bt.add(fmt.Sprintf("(CBit %s %s)", core.Z(v), t), map[string]interface{}{"kind": "bit", "v": v})
		c.Count("bitmaskToAuthMethod")
	}
	for _, ms := range lists {
		var am []security.AuthMethod
		for _, m := range ms {
			am = append(am, security.AuthMethod(m))
		}
		b := security.VerifCreateClientAuthBitmask(am)
		bt.add(fmt.Sprintf("(CMask %s %s)", methList(ms), core.Z(int64(b))), map[string]interface{}{"kind": "mask", "ms": ms})
		c.Count("createClientAuthBitmask")
		for _, m := range ms {
			// round trip used by the retry loop: bit(m) and back
			bm := security.VerifAuthMethodToBitmask(security.AuthMethod(m))
			bt.add(fmt.Sprintf("(CMask %s %s)", methList([]string{m}), core.Z(int64(bm))), map[string]interface{}{"kind": "mask", "ms": []string{m}})
		}
	}
}

// ---------- (b) real client x real server ---------------------------------

type hsSpec struct {
	Kind string      `json:"kind"`
	C    peer.Policy `json:"c"`
	S    peer.Policy `json:"s"`
	Tok  bool        `json:"tok,omitempty"` // both ends hold token material (peer.TokenWorld): TOKEN / IDTOKENS can run
}

var (
	tokOnce  sync.Once
	tokWorld *peer.TokenWorld
)

func world() *peer.TokenWorld {
	tokOnce.Do(func() {
		w, err := peer.NewTokenWorld("verif.local")
		if err != nil {
			panic(err)
		}
		tokWorld = w
	})
	return tokWorld
}

// TOKEN and IDTOKENS are two names of one method (HTCondor's CAUTH_TOKEN)
func canon(m string) string {
	if m == "IDTOKENS" {
		return "TOKEN"
	}
	return m
}
func inListCanon(x string, l []string) bool {
	for _, y := range l {
		if canon(x) == canon(y) {
			return true
		}
	}
	return false
}

type hsObs struct {
	CErr, SErr, Denied       bool
	CHang, SHang             bool
	CAuth, SAuth, CEnc, SEnc bool
	CMeth, SMeth             string
	CReal, SReal             bool // Stream.IsEncrypted
	SidEq, KeyEq             bool
	KeyLen                   int
	Rounds                   [][2]int64
	RanOK                    string // method whose exchange completed on the wire ("" none)
	MsgOK                    bool
	Leak                     bool // a marker was visible in clear on the wire
	CmdsOK                   bool // the client's ValidCommands names the command it asked for
	WireErr                  string
	CErrText, SErrText       string
}

var markerC = []byte("C10-MARKER-client-to-server-0123456789")
var markerS = []byte("C10-MARKER-server-to-client-9876543210")

func parseAd(msg []byte, skipInt bool) (map[string]string, bool) {
	if skipInt {
		if len(msg) < 8 {
			return nil, false
		}
	}
	st := &mock.Stream{In: []mock.Frame{{Data: msg, EOM: true}}}
	m := message.NewMessageFromStream(st)
	ctx := context.Background()
	if skipInt {
		if _, err := m.GetInt(ctx); err != nil {
			return nil, false
		}
	}
	ad, err := m.GetClassAdWithMaxSize(ctx, 1<<16)
	if err != nil {
		return nil, false
	}
	out := map[string]string{}
	for _, k := range []string{"ReturnCode", "Authentication", "Encryption", "AuthMethods", "AuthMethodsList", "CryptoMethods", "Sid"} {
		if s, ok := ad.EvaluateAttrString(k); ok {
			out[k] = s
		}
	}
	return out, true
}

// walkWire reconstructs the cleartext authentication phase from the tap with a
// small reference reading of the protocol: after the two security ads, while
// the server answered Authentication=YES, the client sends a bitmask, the
// server a reply; reply CLAIMTOBE(2) is followed by the claim and the
// acknowledgement, then the server's hasKey flag; PASSWORD(512) has no traffic.
func walkWire(tap *peer.Tap, o *hsObs) {
	msgs, pos := tap.OrderedMessages()
	cm, sm := msgs[0], msgs[1]
	cpos, spos := pos[0], pos[1]
	if len(sm) == 0 {
		return
	}
	ad, ok := parseAd(sm[0], false)
	if !ok {
		o.WireErr = "server ad unparsable"
		return
	}
	if rc := ad["ReturnCode"]; rc != "" && rc != "AUTHORIZED" {
		o.Denied = true
		return
	}
	if ad["Authentication"] != "YES" {
		return
	}
	ci, si := 1, 1
	for ci < len(cm) {
		b, ok := peer.ReadInt64(cm[ci])
		ci++
		if !ok || b == 0 {
			if ok {
				o.Rounds = append(o.Rounds, [2]int64{0, -1})
			}
			return
		}
		if si >= len(sm) {
			return
		}
		r, ok := peer.ReadInt64(sm[si])
		si++
		if !ok {
			return
		}
		o.Rounds = append(o.Rounds, [2]int64{b, r})
		switch r {
		case 2: // CLAIMTOBE
			if ci >= len(cm) || si >= len(sm) {
				return
			}
			st, _ := peer.ReadInt64(cm[ci])
			ci++
			ack, _ := peer.ReadInt64(sm[si])
			si++
			if st == 1 && ack == 1 {
				o.RanOK = "CLAIMTOBE"
				return
			}
		case 4: // FS: server names a directory, client reports its mkdir, server reports its verification
			if si+1 >= len(sm) || ci >= len(cm) {
				return
			}
			cres, _ := peer.ReadInt64(cm[ci])
			ci++
			sres, ok := peer.ReadInt64(sm[si+1])
			si += 2
			if ok && cres == 0 && sres == 0 {
				o.RanOK = "FS"
				return
			}
		case 2048: // TOKEN / IDTOKENS (AKEP2): client step 1, server step 2, client step 3; after a
			// success the server's key-exchange message is next, after a failure the client's bitmask
			if ci+1 >= len(cm) || si >= len(sm) {
				return
			}
			ci += 2
			si++
			if si < len(sm) && (ci >= len(cm) || spos[si] < cpos[ci]) {
				o.RanOK = "TOKEN"
				return
			}
		case 0:
			return
		default: // PASSWORD and the like: nothing on the wire
		}
	}
}

func runHonest(sp hsSpec) hsObs {
	ca, sa, tap := peer.Pipe()
	var cr, sr peer.Result
	var wg sync.WaitGroup
	wg.Add(2)
	go func() {
		defer wg.Done()
		scfg := sp.S.Config()
		if sp.Tok {
			scfg = world().Server(scfg)
		}
		sr = peer.RunServer(sa, scfg)
		if sr.Err != nil {
			sa.Close()
		}
	}()
	go func() {
		defer wg.Done()
		ccfg := sp.C.Config()
		if sp.Tok {
			ccfg = world().Client(ccfg)
		}
		cr = peer.RunClient(ca, ccfg)
		if cr.Err != nil {
			ca.Close()
		}
	}()
	wg.Wait()
	o := hsObs{CErr: cr.Err != nil, SErr: sr.Err != nil, CHang: cr.Hang, SHang: sr.Hang}
	if cr.Err != nil {
		o.CErrText = cr.Err.Error()
	}
	if sr.Err != nil {
		o.SErrText = sr.Err.Error()
	}
	walkWire(tap, &o)
	if cr.Err == nil && cr.Neg != nil {
		o.CAuth, o.CEnc, o.CMeth, o.CReal = cr.Neg.Authentication, cr.Neg.Encryption, string(cr.Neg.NegotiatedAuth), cr.Encrypted
	}
	if sr.Err == nil && sr.Neg != nil {
		o.SAuth, o.SEnc, o.SMeth, o.SReal = sr.Neg.Authentication, sr.Neg.Encryption, string(sr.Neg.NegotiatedAuth), sr.Encrypted
	}
	if cr.Err == nil && sr.Err == nil && cr.Neg != nil && sr.Neg != nil {
		o.SidEq = cr.Neg.SessionId != "" && cr.Neg.SessionId == sr.Neg.SessionId
		o.KeyEq = bytes.Equal(cr.Key, sr.Key)
		o.KeyLen = len(cr.Key)
		want := sp.C.Command
		if want < 0 {
			want = 60010 // DC_AUTHENTICATE stands in for an auth-only handshake
		}
		o.CmdsOK = cr.Neg.ValidCommands == fmt.Sprintf("%d", want)
		// a message each way, straight after
		off := tap.Len(true)
		offS := tap.Len(false)
		ok := true
		if err := peer.SendMarker(cr.Stream, markerC); err != nil {
			ok = false
		} else if got, err := peer.RecvMarker(sr.Stream, len(markerC)); err != nil || !bytes.Equal(got, markerC) {
			ok = false
		}
		if ok {
			if err := peer.SendMarker(sr.Stream, markerS); err != nil {
				ok = false
			} else if got, err := peer.RecvMarker(cr.Stream, len(markerS)); err != nil || !bytes.Equal(got, markerS) {
				ok = false
			}
		}
		o.MsgOK = ok
		o.Leak = tap.Contains(true, off, markerC) || tap.Contains(false, offS, markerS)
	}
	ca.Close()
	sa.Close()
	return o
}

// ---- the oracle: decision table written from the property text -------------

func usableMethod(m string) bool {
	switch m {
	case "FS", "IDTOKENS", "TOKEN", "SCITOKENS", "SSL", "KERBEROS", "CLAIMTOBE":
		return true // a real authentication method this build implements
	}
	return false // PASSWORD (stub), NONE (no authentication), unknown names
}
func mutual(a, b []string, ok func(string) bool) bool {
	for _, x := range a {
		for _, y := range b {
			if x == y && ok(x) {
				return true
			}
		}
	}
	return false
}
func inList(x string, l []string) bool {
	for _, y := range l {
		if x == y {
			return true
		}
	}
	return false
}

type verdict struct {
	Fail, AuthRuns, EncRequired bool
}

func table(sp hsSpec) verdict {
	req := func(a, b string) bool { return a == "REQUIRED" || b == "REQUIRED" }
	nev := func(a, b string) bool { return a == "NEVER" || b == "NEVER" }
	pref := func(a, b string) bool { return a == "PREFERRED" || b == "PREFERRED" }
	mm := mutual(sp.C.Methods, sp.S.Methods, usableMethod)
	mc := mutual(sp.C.Ciphers, sp.S.Ciphers, func(c string) bool { return c == "AES" })
	v := verdict{}
	authReq, encReq := req(sp.C.Auth, sp.S.Auth), req(sp.C.Enc, sp.S.Enc)
	v.Fail = (authReq && nev(sp.C.Auth, sp.S.Auth)) || (encReq && nev(sp.C.Enc, sp.S.Enc)) || (authReq && !mm) || (encReq && !mc)
	v.AuthRuns = authReq || (pref(sp.C.Auth, sp.S.Auth) && !nev(sp.C.Auth, sp.S.Auth) && mm)
	v.EncRequired = encReq
	return v
}

// judge returns "" when the run obeys the table, else a stable failure key + text.
func judge(sp hsSpec, o hsObs) (string, string) {
	v := table(sp)
	if (sp.C.Integ == "REQUIRED" || sp.S.Integ == "REQUIRED") && !mutual(sp.C.Ciphers, sp.S.Ciphers, func(c string) bool { return c == "AES" }) && !v.Fail {
		// Integrity is outside the property's 4^4 matrix: REQUIRED integrity without a
		// usable cipher makes the requiring endpoint fail at the end of the handshake.
		// Only the direct consequence is judged here: no success on a plaintext stream.
		if sp.C.Integ == "REQUIRED" && !o.CErr {
			return "integ-required", "client Integrity=REQUIRED succeeded without encryption"
		}
		if sp.S.Integ == "REQUIRED" && !o.SErr {
			return "integ-required", "server Integrity=REQUIRED succeeded without encryption"
		}
		return "", ""
	}
	if o.CHang || o.SHang {
		return "hang", "handshake did not terminate"
	}
	if v.Fail {
		if !o.CErr || !o.SErr {
			return "should-fail", fmt.Sprintf("table says the handshake must fail; client err=%v server err=%v", o.CErr, o.SErr)
		}
		if !o.Denied {
			return "no-explicit-denial", "handshake failed but the client received no explicit denial (ReturnCode) from the server: " + o.CErrText
		}
		if !strings.Contains(o.CErrText, "DENIED") {
			return "denial-not-surfaced", "the server's denial (ReturnCode=DENIED) was on the wire but the client's error does not carry it: " + o.CErrText
		}
		return "", ""
	}
	if o.CErr || o.SErr {
		return "should-succeed", fmt.Sprintf("table says the handshake must succeed; client err=%q server err=%q", o.CErrText, o.SErrText)
	}
	if o.CAuth != o.SAuth {
		return "auth-disagree", fmt.Sprintf("client reports Authentication=%v, server %v (on the wire: %q)", o.CAuth, o.SAuth, o.RanOK)
	}
	if o.SAuth != v.AuthRuns || (o.RanOK != "") != v.AuthRuns {
		return "auth-table", fmt.Sprintf("table says authentication runs=%v; reported %v, on the wire %q", v.AuthRuns, o.SAuth, o.RanOK)
	}
	if v.AuthRuns {
		// TOKEN and IDTOKENS are two names of the one method the wire calls CAUTH_TOKEN:
		// each end reports the name it listed
		if canon(o.CMeth) != o.RanOK || canon(o.SMeth) != o.RanOK {
			return "method-disagree", fmt.Sprintf("method on the wire %q, client reports %q, server %q", o.RanOK, o.CMeth, o.SMeth)
		}
		if !inList(o.CMeth, sp.C.Methods) || !inList(o.SMeth, sp.S.Methods) {
			return "method-not-own", fmt.Sprintf("client reports %q (lists %v), server reports %q (lists %v)", o.CMeth, sp.C.Methods, o.SMeth, sp.S.Methods)
		}
		if !inListCanon(o.RanOK, sp.C.Methods) || !inListCanon(o.RanOK, sp.S.Methods) {
			return "method-not-mutual", "method run is not in both lists: " + o.RanOK
		}
	}
	if o.CEnc != o.SEnc || o.CReal != o.SReal || o.CEnc != o.CReal {
		return "enc-disagree", fmt.Sprintf("Encryption reported client=%v server=%v, streams really encrypted client=%v server=%v", o.CEnc, o.SEnc, o.CReal, o.SReal)
	}
	if v.EncRequired && !o.CReal {
		return "enc-required", "encryption required by one side but the stream is not encrypted"
	}
	if !o.SidEq {
		return "sid", "session ids differ or are empty"
	}
	if !o.KeyEq || (o.CReal && o.KeyLen != 32) {
		return "key", "the two ends do not hold the same key"
	}
	if !o.CmdsOK {
		return "valid-commands", "the client's session does not list the command it authenticated for"
	}
	if !o.MsgOK {
		return "msg", "a message each way straight after the handshake failed"
	}
	if o.CReal && o.Leak {
		return "leak", "encrypted session but the payload was visible in clear on the wire"
	}
	if !o.CReal && !o.Leak {
		return "leak-inv", "plaintext session but the payload was not visible in clear"
	}
	return "", ""
}

func roundsTerm(r [][2]int64) string {
	var t []string
	for _, x := range r {
		t = append(t, core.Pair(core.Z(x[0]), core.Z(x[1])))
	}
	return core.List(t)
}

func hsTerm(sp hsSpec, o hsObs) string {
	// outcome: 0 ok / 1 failed with explicit denial / 2 failed otherwise (client, server flags kept)
	out := 0
	if o.CErr || o.SErr {
		out = 2
		if o.Denied && o.CErr && o.SErr {
			out = 1
		}
	}
	integ := func(s string) string {
		if s == "" {
			return "OPTIONAL"
		}
		return s
	}
	return fmt.Sprintf("(CHs %s %s %s %s %s %s %s %s %s %s %d %s %s %s %s %s %s %s %s %s %s)",
		lvlTerm(sp.S.Auth), lvlTerm(sp.C.Auth), lvlTerm(sp.S.Enc), lvlTerm(sp.C.Enc), lvlTerm(integ(sp.S.Integ)), lvlTerm(integ(sp.C.Integ)),
		methList(sp.S.Methods), methList(sp.C.Methods), ciphList(sp.S.Ciphers), ciphList(sp.C.Ciphers),
		out, core.Bool(o.CErr), core.Bool(o.SErr),
		core.Bool(o.CAuth), core.Bool(o.SAuth), core.Bool(o.CEnc), core.Bool(o.SEnc),
		methTerm(o.CMeth), methTerm(o.SMeth), core.Bool(o.CReal && o.SReal), roundsTerm(o.Rounds))
}

func defaultNames() []string {
	var out []string
	for _, m := range security.DefaultAuthMethods() {
		out = append(out, string(m))
	}
	return out
}

type mshape struct {
	Name string
	C, S []string
}

func genHonest(c *core.Ctx) error {
	mshapes := []mshape{
		{"same", []string{"CLAIMTOBE"}, []string{"CLAIMTOBE"}},
		{"overlap-srv-prefers-usable", []string{"PASSWORD", "CLAIMTOBE"}, []string{"CLAIMTOBE", "PASSWORD"}},
		{"overlap-srv-prefers-unimplemented", []string{"CLAIMTOBE", "PASSWORD"}, []string{"PASSWORD", "CLAIMTOBE"}},
		{"disjoint", []string{"CLAIMTOBE"}, []string{"PASSWORD", "FS"}},
		{"client-empty", nil, []string{"CLAIMTOBE"}},
		{"server-empty", []string{"CLAIMTOBE"}, nil},
		{"only-unimplemented-common", []string{"PASSWORD"}, []string{"PASSWORD"}},
		{"none-and-unknown", []string{"NONE", "BOGUS", "CLAIMTOBE"}, []string{"BOGUS", "NONE", "CLAIMTOBE"}},
		{"two-implemented-orders", []string{"CLAIMTOBE", "FS"}, []string{"FS", "CLAIMTOBE"}},
		// an endpoint with no (usable) method at all against one listing the methods a
		// default configuration would have (FS, SSL, KERBEROS ...)
		{"client-nil-vs-defaults", nil, []string{"FS", "SSL", "CLAIMTOBE"}},
		{"client-emptyslice", []string{}, []string{"FS"}},
		{"server-nil-vs-defaults", []string{"FS", "KERBEROS", "CLAIMTOBE"}, nil},
		{"client-all-unimplemented", []string{"PASSWORD", "BOGUS"}, []string{"FS", "PASSWORD", "CLAIMTOBE"}},
		{"duplicates-both-sides", []string{"CLAIMTOBE", "CLAIMTOBE", "FS", "FS"}, []string{"FS", "FS", "CLAIMTOBE", "CLAIMTOBE"}},
		// the one common method named twice by the client: its bit must
		// still be offered exactly as that bit
		{"client-names-common-method-twice", []string{"CLAIMTOBE", "CLAIMTOBE"}, []string{"CLAIMTOBE"}},
		{"client-names-fs-twice", []string{"FS", "PASSWORD", "FS"}, []string{"FS", "FS"}},
	}
	cshapes := []mshape{
		{"common", []string{"AES"}, []string{"AES"}},
		{"none", []string{"AES"}, nil},
		{"orders", []string{"AES", "3DES"}, []string{"3DES", "AES"}},
		{"only-unimplemented-common", []string{"BLOWFISH"}, []string{"BLOWFISH", "3DES"}},
	}
	if c.Quick() {
		// quick tier: the two shapes of the property text in full, the other two on a third of the cells
	}
	var specs []hsSpec
	cell := 0
	for _, ca := range fourLevels {
		for _, sa := range fourLevels {
			for _, ce := range fourLevels {
				for _, se := range fourLevels {
					cell++
					for mi, ms := range mshapes {
						for ci, cs := range cshapes {
							if c.Quick() && ci >= 2 && (cell+mi)%4 != 0 {
								continue
							}
							if c.Quick() && mi >= 9 && ci == 1 && (cell+mi)%2 != 0 {
								continue // quick: the empty / unimplemented / duplicate shapes without a cipher on half of the cells
							}
							for _, cmd := range []int{security.NoCommand, 60007} {
								if c.Quick() && (cell+mi+ci+cmd)%2 == 0 {
									continue // quick: alternate command present / auth-only
								}
								// Integrity is outside the table but inside the configuration: rotate
								// each side over the non-REQUIRED levels so that no cell is only ever
								// run with the default OPTIONAL
								ci3 := nonReqInteg[(cell+mi+2*ci)%3]
								si3 := nonReqInteg[(cell/3+mi+ci)%3]
								specs = append(specs, hsSpec{Kind: "hs", C: peer.Policy{Auth: ca, Enc: ce, Integ: ci3, Methods: ms.C, Ciphers: cs.C, Command: cmd}, S: peer.Policy{Auth: sa, Enc: se, Integ: si3, Methods: ms.S, Ciphers: cs.S}})
							}
						}
					}
				}
			}
		}
	}
	// every cell of the matrix with Integrity NEVER on one or both sides (an endpoint
	// that wants no protection at all still takes part in the key agreement)
	for _, ca := range fourLevels {
		for _, sa := range fourLevels {
			for _, ce := range fourLevels {
				for _, se := range fourLevels {
					for k, l := range [][2]string{{"NEVER", "NEVER"}, {"NEVER", "PREFERRED"}, {"OPTIONAL", "NEVER"}} {
						for ci, cs := range cshapes[:2] {
							ms := mshapes[0]
							if (k+ci)%2 == 1 {
								ms = mshapes[1]
							}
							specs = append(specs, hsSpec{Kind: "hs", C: peer.Policy{Auth: ca, Enc: ce, Integ: l[0], Methods: ms.C, Ciphers: cs.C, Command: 60007}, S: peer.Policy{Auth: sa, Enc: se, Integ: l[1], Methods: ms.S, Ciphers: cs.S}})
						}
					}
				}
			}
		}
	}
	// token methods really running (both ends hold a usable token / signing key): IDTOKENS and
	// TOKEN alone, next to SCITOKENS / FS, the default method list on both sides, and the two
	// names of the token method mixed
	tshapes := []mshape{
		{"idtokens", []string{"IDTOKENS"}, []string{"IDTOKENS"}},
		{"idtokens-scitokens", []string{"IDTOKENS", "SCITOKENS"}, []string{"IDTOKENS", "SCITOKENS"}},
		{"idtokens-fs", []string{"IDTOKENS", "FS"}, []string{"IDTOKENS", "FS"}},
		{"defaults-both", defaultNames(), defaultNames()},
		{"token", []string{"TOKEN"}, []string{"TOKEN"}},
		{"token-fs-orders", []string{"TOKEN", "FS"}, []string{"FS", "TOKEN"}},
		{"token-alias-names", []string{"IDTOKENS"}, []string{"TOKEN", "IDTOKENS"}},
		{"token-alias-client-both", []string{"IDTOKENS", "TOKEN"}, []string{"TOKEN"}},
	}
	tcell := 0
	for _, ca := range fourLevels {
		for _, sa := range fourLevels {
			for _, ce := range fourLevels {
				for _, se := range fourLevels {
					tcell++
					for ti, ts := range tshapes {
						if c.Quick() && (tcell+ti)%2 != 0 {
							continue
						}
						cs := cshapes[(tcell+ti)%2*1]
						if (tcell/2+ti)%3 == 0 {
							cs = cshapes[1]
						}
						specs = append(specs, hsSpec{Kind: "hs", Tok: true,
							C: peer.Policy{Auth: ca, Enc: ce, Integ: nonReqInteg[(tcell+ti)%3], Methods: ts.C, Ciphers: cs.C, Command: 60007},
							S: peer.Policy{Auth: sa, Enc: se, Integ: nonReqInteg[(tcell/3+ti)%3], Methods: ts.S, Ciphers: cs.S}})
					}
				}
			}
		}
	}
	// integrity sweep: Integrity REQUIRED on either side (enforced only at the end of the handshake)
	for i, l := range [][2]string{{"REQUIRED", "OPTIONAL"}, {"OPTIONAL", "REQUIRED"}, {"REQUIRED", "NEVER"}, {"PREFERRED", "REQUIRED"}} {
		for _, ce := range fourLevels {
			for _, se := range fourLevels {
				for _, cs := range cshapes {
					for _, a := range []string{"REQUIRED", "OPTIONAL"} {
						specs = append(specs, hsSpec{Kind: "hs", C: peer.Policy{Auth: a, Enc: ce, Integ: l[0], Methods: mshapes[i%3].C, Ciphers: cs.C, Command: 60007}, S: peer.Policy{Auth: "PREFERRED", Enc: se, Integ: l[1], Methods: mshapes[i%3].S, Ciphers: cs.S}})
					}
				}
			}
		}
	}
	obs := make([]hsObs, len(specs))
	// cedar's FS server prints a warning for every directory the client already
	// removed; keep that noise out of the check's log
	if devnull, err := os.OpenFile(os.DevNull, os.O_WRONLY, 0); err == nil {
		saved := os.Stdout
		os.Stdout = devnull
		defer func() { os.Stdout = saved; devnull.Close() }()
	}
	var wg sync.WaitGroup
	sem := make(chan struct{}, runtime.NumCPU())
	for i := range specs {
		wg.Add(1)
		sem <- struct{}{}
		go func(i int) {
			defer wg.Done()
			defer func() { <-sem }()
			obs[i] = runHonest(specs[i])
		}(i)
		if i%512 == 0 {
			security.GetSessionCache().Clear()
		}
	}
	wg.Wait()
	fails := map[string]int{}
	for i, sp := range specs {
		o := obs[i]
		c.OracleCheck()
		if key, txt := judge(sp, o); key != "" {
			fails[key]++
			if fails[key] <= 3 {
				c.OracleFail("c10-"+key, fmt.Sprintf("%s: client{%s/%s %v %v} server{%s/%s %v %v}", txt,
					sp.C.Auth, sp.C.Enc, sp.C.Methods, sp.C.Ciphers, sp.S.Auth, sp.S.Enc, sp.S.Methods, sp.S.Ciphers), sp)
			}
		}
		bt.add(hsTerm(sp, o), sp)
		switch {
		case !o.CErr && !o.SErr:
			c.Count(fmt.Sprintf("hs-ok auth=%v enc=%v", o.SAuth, o.SReal))
			c.Nontrivial(fmt.Sprint(sp.C.Auth, sp.S.Auth, sp.C.Enc, sp.S.Enc, sp.C.Methods, sp.S.Methods, sp.C.Ciphers, sp.S.Ciphers))
		case o.Denied:
			c.Count("hs-denied")
		default:
			c.Count("hs-failed-other")
		}
		if len(o.Rounds) > 1 {
			c.Count("hs-retry-rounds>1")
		}
		if i%997 == 0 {
			c.Sample(map[string]interface{}{"spec": sp, "client_err": o.CErr, "server_err": o.SErr, "auth": o.SAuth, "enc": o.SReal, "rounds": o.Rounds})
		}
	}
	ks := make([]string, 0, len(fails))
	for k := range fails {
		ks = append(ks, k)
	}
	sort.Strings(ks)
	for _, k := range ks {
		c.Note(fmt.Sprintf("oracle failures %s: %d", k, fails[k]))
	}
	return nil
}

// runCorpus replays the minimised past disagreements kept in /verif/corpus/C10
// (witnesses of the defects found so far) before anything is generated.
func runCorpus(c *core.Ctx) {
	exe, err := os.Executable()
	if err != nil {
		return
	}
	dir := filepath.Join(filepath.Dir(filepath.Dir(exe)), "corpus", "C10")
	if d := os.Getenv("VERIF_CORPUS"); d != "" {
		dir = d
	}
	files, _ := filepath.Glob(filepath.Join(dir, "*.json"))
	sort.Strings(files)
	for _, f := range files {
		raw, err := os.ReadFile(f)
		if err != nil {
			continue
		}
		c.OracleCheck()
		c.Evaluated(1)
		c.Count("corpus")
		if err := replay(json.RawMessage(raw)); err != nil {
			c.OracleFail("c10-corpus", fmt.Sprintf("corpus case %s: %v", filepath.Base(f), err), json.RawMessage(raw))
		}
	}
}

func gen(c *core.Ctx) error {
	peer.Quiet()
	runCorpus(c)
	bt = &batcher{c: c, n: 6}
	genNegotiate(c)
	if err := genHonest(c); err != nil {
		return err
	}
	bt.flush()
	c.Rule("every run of real client x real server must obey the decision table written from the property text (fail iff REQUIRED meets NEVER or a REQUIRED feature has no mutual usable method, then explicit denial; else success, authentication runs iff required or preferred-not-forbidden-with-mutual-method, encryption on when required, both ends agree on auth/enc/method/sid/key, a message each way works); every negotiateSecurity/bitmask result and every handshake outcome must equal Model/Negotiate.v")
	c.Exhaustive(!c.Quick())
	c.Assume("authentication sub-protocols exercised: CLAIMTOBE and FS (succeed), PASSWORD (unimplemented, fails); token pre-filter not exercised")
	return nil
}

func replay(raw json.RawMessage) error {
	peer.Quiet()
	var bd struct {
		Batch []json.RawMessage `json:"batch"`
	}
	if json.Unmarshal(raw, &bd) == nil && len(bd.Batch) > 0 {
		for _, x := range bd.Batch {
			if err := replay(x); err != nil {
				return err
			}
		}
		return nil
	}
	var sp hsSpec
	if err := json.Unmarshal(raw, &sp); err != nil {
		return err
	}
	if sp.Kind != "hs" {
		return nil
	}
	o := runHonest(sp)
	if key, txt := judge(sp, o); key != "" {
		return fmt.Errorf("%s: %s", key, txt)
	}
	return nil
}

var _ = strings.Join

func main() { core.Main("C10", gen, replay) }
