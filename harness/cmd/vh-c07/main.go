// vh-c07: correspondence + oracle for C07 (a client reuses a cached session only
// for the same server, command and tag; drop-on-failure; invalidation removes
// every route).
//
// Real ClientHandshake against a real honest in-process ServerHandshake over
// net.Pipe. Two server identities (addresses) that can be restarted (sessions
// forgotten) or made to drop the connection; virtual time by shifting every
// entry's expiry. After every step the client cache is observed (command map,
// sessions, Lookup for every id issued, LookupByCommand for every triple of the
// alphabet). The Coq model (Model/Cache.v) is run on the same history
// (Run/C07.v); the oracle is a reference map (tag, addr, cmd) -> session kept
// independently in Go.
package main

import (
	"bytes"
	"context"
	"encoding/json"
	"errors"
	"fmt"
	"io"
	"log/slog"
	"net"
	"os"
	"sort"
	"strings"
	"sync"
	"sync/atomic"
	"time"

	"verifharness/core"

	"github.com/PelicanPlatform/classad/classad"
	"github.com/bbockelm/cedar/client"
	"github.com/bbockelm/cedar/message"
	"github.com/bbockelm/cedar/security"
	"github.com/bbockelm/cedar/stream"
)

// ---- alphabet -------------------------------------------------------------

var tags = []string{"", "tagA", "tagB"}

// two daemons behind one shared port: the addresses differ only in the sock= name
var addrs = []string{"<10.0.0.1:9618?sock=schedd_1234_5678>", "<10.0.0.1:9618?sock=startd_1234_9999>"}
var cmds = []int{421, 60007, 9}

// commands every cache state is probed with (LookupByCommand): the alphabet plus command 0,
// which no server of the catalogue declares unless it says so
var probeCmds = []int{421, 60007, 9, 0}

// (SessionDuration, SessionLease) pairs a server may announce: regular, absent (0 = defaults 3600/1800), negative,
// 2^40 s and the first second whose nanosecond count overflows int64, the last one that does not
var announcedDurations = [][2]int64{{sessDuration, sessLease}, {0, 0}, {-5, sessLease}, {1 << 40, 1 << 40}, {9223372037, sessLease}, {9223372036, 9223372036}, {sessDuration, -7}}
var durName = map[int64]string{sessDuration: "z2100", sessLease: "z950", 0: "z0", -5: "zm5", 1 << 40: "zhuge", 9223372037: "zover", 9223372036: "zmaxok", -7: "zm7"}

// ValidCommands strings a server may announce in its post-auth ad (event "announce")
var validCatalogue = []string{
	"421,60007,", "421,,60007", " 421 , 9 ", "DC_NOP,421", "99999999999999999999,9", "-5,421",
	"0", "421,0x10", ",", "+421,9", "421,60007", "0,421", "60007,READ,", "9 ,, ,421",
}

// commands the server declares valid for a session established for cmds[i]
var validFor = map[int][]int{421: {421, 60007}, 60007: {60007}, 9: {421}}

const (
	sessDuration = 2100 // seconds
	sessLease    = 950
)

// handshake deadline used against a peer that swallows the request and stays silent (mode d4);
// VERIF_C07_DEADLINE_MS overrides it (a suspected timing failure is re-run with the bound doubled)
var silentDeadline = 250 * time.Millisecond

// ---- history ----------------------------------------------------------------

type event struct {
	Kind     string `json:"k"`             // hs retry tick inval invalexp lne restart import announce
	Tag      string `json:"tag,omitempty"` // hs/retry
	Addr     int    `json:"addr"`          // index into addrs (hs, restart); -1 = no address at all
	Cmd      int    `json:"cmd,omitempty"` // command int (hs/retry); -1 = NoCommand
	Mode     string `json:"mode,omitempty"`
	Explicit int    `json:"explicit,omitempty"` // hs: ordinal of the session named by SessionID (0 = none, 99 = unknown id)
	Via      string `json:"via,omitempty"`      // peername | stream | both
	Dt       int    `json:"dt,omitempty"`
	K        int    `json:"n,omitempty"`       // ordinal of a session (inval, lne); 99 = an id never issued
	Dur      int    `json:"dur,omitempty"`     // announce: index into announcedDurations (SessionDuration / SessionLease of the post-auth ad)
	AuthCmd  int    `json:"authcmd,omitempty"` // hs: SecurityConfig.AuthCommand (the DC_SEC_QUERY shape: Command asks about AuthCommand)
	Valid    int    `json:"valid,omitempty"`   // announce: index into validCatalogue
	Mint     bool   `json:"mint,omitempty"`    // import: claim number Claim is minted into the client cache by MintClaimSession (Tag, PeerAddr, ExtraValidCommands)
	Claim    int    `json:"claim,omitempty"`   // import: number of the claim (1, 2) imported through ImportClaimSession; 0 = Store + MapCommand of ordinal K
}

type history struct {
	Events []event `json:"events"`
	Plain1 bool    `json:"plain1"` // server 1 negotiates no encryption (sessions without a key)
}

// ---- in-process servers -----------------------------------------------------

type serverState struct {
	entries map[string]*security.SessionEntry // what this server remembers
	plain   bool
}

type seenRec struct {
	kind     string // full resume nothing
	sid      string
	reply    string // resume: authorized sidnotfound othercode nocode broken ; full: ok fail
	declared []int  // full: commands the server's policy declared
	srvSid   string // full: id the server issued
	srvKey   bool
}

// recConn records both directions of a connection end.
type recConn struct {
	net.Conn
	mu       sync.Mutex
	rd, wr   bytes.Buffer
	cutReads bool
}

func (r *recConn) Read(p []byte) (int, error) {
	n, err := r.Conn.Read(p)
	r.mu.Lock()
	r.rd.Write(p[:n])
	r.mu.Unlock()
	return n, err
}
func (r *recConn) Write(p []byte) (int, error) {
	n, err := r.Conn.Write(p)
	r.mu.Lock()
	r.wr.Write(p[:n])
	r.mu.Unlock()
	return n, err
}

// bufConn lets the message package parse recorded bytes.
type bufConn struct{ r *bytes.Reader }

func (b *bufConn) Read(p []byte) (int, error)       { return b.r.Read(p) }
func (b *bufConn) Write(p []byte) (int, error)      { return len(p), nil }
func (b *bufConn) Close() error                     { return nil }
func (b *bufConn) LocalAddr() net.Addr              { return nil }
func (b *bufConn) RemoteAddr() net.Addr             { return nil }
func (b *bufConn) SetDeadline(time.Time) error      { return nil }
func (b *bufConn) SetReadDeadline(time.Time) error  { return nil }
func (b *bufConn) SetWriteDeadline(time.Time) error { return nil }

func parseRequest(b []byte) (isResume bool, sid string, ok bool) {
	if len(b) == 0 {
		return false, "", false
	}
	ctx, cancel := context.WithTimeout(context.Background(), 2*time.Second)
	defer cancel()
	st := stream.NewStream(&bufConn{bytes.NewReader(b)})
	m := message.NewMessageFromStream(st)
	if _, err := m.GetInt(ctx); err != nil {
		return false, "", false
	}
	ad, err := m.GetClassAdWithMaxSize(ctx, 4096)
	if err != nil {
		return false, "", false
	}
	if us, k := ad.EvaluateAttrString("UseSession"); k && us == "YES" {
		if s, k2 := ad.EvaluateAttrString("Sid"); k2 {
			return true, s, true
		}
	}
	return false, "", true
}

func parseReplyCode(b []byte) string {
	if len(b) == 0 {
		return "broken"
	}
	ctx, cancel := context.WithTimeout(context.Background(), 2*time.Second)
	defer cancel()
	st := stream.NewStream(&bufConn{bytes.NewReader(b)})
	m := message.NewMessageFromStream(st)
	ad, err := m.GetClassAdWithMaxSize(ctx, 4096)
	if err != nil {
		return "broken"
	}
	rc, ok := ad.EvaluateAttrString("ReturnCode")
	switch {
	case !ok:
		return "nocode"
	case rc == "AUTHORIZED":
		return "authorized"
	case rc == "SID_NOT_FOUND":
		return "sidnotfound"
	}
	return "othercode"
}

type world struct {
	h        history
	cache    *security.SessionCache
	servers  []*serverState
	ids      []string // ordinal k -> real id (k = index+1)
	ordOf    map[string]int
	addrName []string // addresses as used by the client for server i
	alias    map[string]string
	keys     map[string][3]int
	claims   map[int]string // claim number -> secret claim id (minted once per history)
	// d3: called by the silent server once it has consumed the request
	onConsumed func()
}

func newWorld(h history) *world {
	w := &world{h: h, cache: security.NewSessionCache(), ordOf: map[string]int{}, alias: map[string]string{}}
	w.servers = []*serverState{{entries: map[string]*security.SessionEntry{}}, {entries: map[string]*security.SessionEntry{}, plain: h.Plain1}}
	w.addrName = append([]string(nil), addrs...)
	security.GetSessionCache().Clear()
	return w
}

// claimID mints claim number k once (into a scratch cache: only the claim id is used) and returns it
func (w *world) claimID(k int) string {
	if w.claims == nil {
		w.claims = map[int]string{}
	}
	if c, ok := w.claims[k]; ok {
		return c
	}
	m, err := security.MintClaimSession(security.NewSessionCache(), security.MintClaimOptions{
		Sinful: fmt.Sprintf("<10.8.8.%d:9618?sock=startd_77_%d>", k, k), Birthdate: 1700000000, SequenceNum: k})
	if err != nil {
		panic(err)
	}
	w.claims[k] = m.ClaimID()
	return w.claims[k]
}

func (w *world) ord(id string) int {
	if k, ok := w.ordOf[id]; ok {
		return k
	}
	w.ids = append(w.ids, id)
	w.ordOf[id] = len(w.ids)
	return len(w.ids)
}
func (w *world) idOfOrd(k int) string {
	if k >= 1 && k <= len(w.ids) {
		return w.ids[k-1]
	}
	return "never-issued:1:1:" + fmt.Sprint(k)
}

// name of a real id inside case terms / descriptions (no host names, pids, timestamps)
func (w *world) sidName(id string) string {
	if k, ok := w.ordOf[id]; ok {
		return fmt.Sprintf("S%d", k)
	}
	if strings.HasPrefix(id, "never-issued") {
		return "Sx" + id[strings.LastIndex(id, ":")+1:]
	}
	return "S?" + fmt.Sprint(len(id))
}

func serverConfig(s *serverState) *security.SecurityConfig {
	enc := security.SecurityRequired
	cm := []security.CryptoMethod{security.CryptoAES}
	if s.plain {
		enc = security.SecurityNever
		cm = nil // no cipher in common: sessions are stored without a key
	}
	return &security.SecurityConfig{
		AuthMethods:     []security.AuthMethod{security.AuthNone},
		Authentication:  security.SecurityOptional,
		CryptoMethods:   cm,
		Encryption:      enc,
		Integrity:       security.SecurityOptional,
		SessionDuration: sessDuration,
		SessionLease:    sessLease,
	}
}

// serve handles one connection on behalf of server s, with the real ServerHandshake.
func (w *world) serve(s *serverState, conn net.Conn, mode string) seenRec {
	defer conn.Close()
	rec := &recConn{Conn: conn}
	var out seenRec
	switch mode {
	case "d1": // drop before reading anything
		out.kind = "dropped"
		out.reply = "broken"
		return out
	case "d2", "d3", "d4":
		// d2: read the request, then drop without replying.
		// d3: read the request, then stay silent; the client's context is cancelled at that moment.
		// d4: read the request, then stay silent until the client's handshake deadline passes.
		st := stream.NewStream(rec)
		ctx, cancel := context.WithTimeout(context.Background(), 5*time.Second)
		defer cancel()
		m := message.NewMessageFromStream(st)
		if _, err := m.GetInt(ctx); err == nil {
			_, _ = m.GetClassAdWithMaxSize(ctx, 4096)
		}
		isRes, sid, ok := parseRequest(rec.rd.Bytes())
		out.reply = "broken"
		if mode != "d2" {
			if ok && mode == "d3" && w.onConsumed != nil {
				w.onConsumed()
			}
			_, _ = io.Copy(io.Discard, rec) // silent until the client gives up and closes
		}
		switch {
		case !ok && mode == "d4":
			out.kind = "dropped" // (deadline hit before the whole request arrived: request not seen)
		case !ok:
			out.kind = "nothing"
		case isRes:
			out.kind, out.sid = "resume", sid
		default:
			out.kind, out.reply = "full", "fail"
		}
		return out
	}
	// honest service: only this server's sessions are known to the process-wide cache
	g := security.GetSessionCache()
	g.Clear()
	for _, e := range s.entries {
		g.Store(e)
	}
	var declared []int
	base := serverConfig(s)
	st := stream.NewStream(rec)
	st.SetPeerAddr("<192.0.2.7:40000>")
	auth := security.NewAuthenticator(base, st)
	auth.ServerConfigForCommand = func(cmd int) *security.SecurityConfig {
		c := serverConfig(s)
		c.PostAuthPolicy = func(authUser, peerAddr string, authenticated, encrypted bool) (string, []int) {
			v := validFor[cmd]
			if len(v) == 0 {
				declared = []int{cmd}
				return "", nil
			}
			declared = append([]int(nil), v...)
			return "", v
		}
		return c
	}
	ctx, cancel := context.WithTimeout(context.Background(), 5*time.Second)
	defer cancel()
	neg, err := auth.ServerHandshake(ctx)
	s.entries = g.VerifSessionKeys()
	isRes, sid, ok := parseRequest(rec.rd.Bytes())
	switch {
	case !ok:
		out.kind, out.reply = "nothing", "broken"
	case isRes:
		out.kind, out.sid = "resume", sid
		out.reply = parseReplyCode(rec.wr.Bytes())
	default:
		out.kind = "full"
		if err == nil && neg != nil {
			out.reply = "ok"
			out.srvSid = neg.SessionId
			out.srvKey = len(neg.GetSharedSecret()) > 0
			out.declared = declared
		} else {
			out.reply = "fail"
		}
	}
	return out
}

type hsResult struct {
	res        string // ok resumeerr othererr
	wasResumed bool
	neg        *security.SecurityNegotiation
	errSid     string // SessionID carried by a SessionResumptionError
}

func clientConfig(w *world, e event) *security.SecurityConfig {
	cfg := &security.SecurityConfig{
		AuthMethods:    []security.AuthMethod{security.AuthNone},
		Authentication: security.SecurityOptional,
		CryptoMethods:  []security.CryptoMethod{security.CryptoAES},
		Encryption:     security.SecurityPreferred,
		Integrity:      security.SecurityOptional,
		Command:        e.Cmd,
		AuthCommand:    e.AuthCmd,
		SecurityTag:    e.Tag,
		SessionCache:   w.cache,
	}
	if e.Explicit != 0 {
		cfg.SessionID = w.idOfOrd(e.Explicit)
	}
	return cfg
}

func classify(err error) string {
	switch {
	case err == nil:
		return "ok"
	case security.IsSessionResumptionError(err):
		return "resumeerr"
	}
	return "othererr"
}

// one client handshake over net.Pipe against server e.Addr
func (w *world) handshake(e event) (seenRec, hsResult) {
	cc, sc := net.Pipe()
	srvIdx := e.Addr
	if srvIdx < 0 {
		srvIdx = 0
	}
	ch := make(chan seenRec, 1)
	cst := stream.NewStream(cc)
	cfg := clientConfig(w, e)
	switch {
	case e.Addr < 0:
		cst.SetPeerAddr("")
	case e.Via == "stream":
		cst.SetPeerAddr(w.addrName[e.Addr])
	case e.Via == "both":
		cfg.PeerName = w.addrName[e.Addr]
		cst.SetPeerAddr(w.addrName[1-e.Addr])
	default:
		cfg.PeerName = w.addrName[e.Addr]
	}
	auth := security.NewAuthenticator(cfg, cst)
	limit := 5 * time.Second
	if e.Mode == "d4" {
		limit = silentDeadline
	}
	ctx, cancel := context.WithTimeout(context.Background(), limit)
	w.onConsumed = cancel
	go func() { ch <- w.serve(w.servers[srvIdx], sc, e.Mode) }()
	neg, err := auth.ClientHandshake(ctx)
	cancel()
	cc.Close()
	sv := <-ch
	w.onConsumed = nil
	var sre *security.SessionResumptionError
	errSid := ""
	if errors.As(err, &sre) {
		errSid = sre.SessionID
	}
	return sv, hsResult{res: classify(err), wasResumed: auth.WasSessionResumed(), neg: neg, errSid: errSid}
}

// ---- TCP listener for the ConnectAndAuthenticateWithConfig scenarios --------

type tcpServer struct {
	ln       net.Listener
	w        *world
	idx      int
	modes    chan string
	seen     chan seenRec
	accepted int32
}

func (w *world) startTCP(idx int) (*tcpServer, error) {
	ln, err := net.Listen("tcp", "127.0.0.1:0")
	if err != nil {
		return nil, err
	}
	t := &tcpServer{ln: ln, w: w, idx: idx, modes: make(chan string, 8), seen: make(chan seenRec, 8)}
	go func() {
		for {
			c, err := ln.Accept()
			if err != nil {
				return
			}
			atomic.AddInt32(&t.accepted, 1)
			mode := "ok"
			select {
			case mode = <-t.modes:
			default:
			}
			t.seen <- w.serve(w.servers[idx], c, mode) // one at a time
		}
	}()
	return t, nil
}

// ---- observation of the client cache ----------------------------------------

type snapshot struct {
	cmdmap   map[string]string // key -> real id
	sessions map[string]*security.SessionEntry
	byid     map[string]bool
	bycmd    map[[3]string]string // triple -> real id ("" none)
	keyNeqID []string
}

func (w *world) observe() snapshot {
	s := snapshot{cmdmap: w.cache.VerifCommandMap(), sessions: w.cache.VerifSessionKeys(), byid: map[string]bool{}, bycmd: map[[3]string]string{}}
	for k, e := range s.sessions {
		if k != e.ID() {
			s.keyNeqID = append(s.keyNeqID, k)
		}
	}
	for _, id := range w.ids {
		_, ok := w.cache.Lookup(id)
		s.byid[id] = ok
	}
	for _, t := range tags {
		for ai := range addrs {
			for _, c := range probeCmds {
				tr := [3]string{t, w.addrName[ai], fmt.Sprint(c)}
				if e, ok := w.cache.LookupByCommand(t, w.addrName[ai], fmt.Sprint(c)); ok {
					s.bycmd[tr] = e.ID()
				} else {
					s.bycmd[tr] = ""
				}
			}
		}
	}
	return s
}

// hexs prints a string as a list of byte constructors (identifiers elaborate far
// faster in coqc than string/number notations)
func hexs(s string) string {
	if s == "" {
		return "[]"
	}
	var b strings.Builder
	b.WriteString("[")
	for i := 0; i < len(s); i++ {
		if i > 0 {
			b.WriteString("; ")
		}
		fmt.Fprintf(&b, "x%02x", s[i])
	}
	b.WriteString("]")
	return b.String()
}

func nn(k int) string { return fmt.Sprintf("n%d", k) }

func (w *world) unalias(s string) string {
	for real, al := range w.alias {
		s = strings.ReplaceAll(s, real, al)
	}
	return s
}

func (w *world) sidN(id string) int {
	if id == "" {
		return 0
	}
	if k, ok := w.ordOf[id]; ok {
		return k
	}
	if strings.HasPrefix(id, "never-issued") {
		var k int
		fmt.Sscan(id[strings.LastIndex(id, ":")+1:], &k)
		if k == 99 {
			return 99
		}
		return 200 + k
	}
	return 250
}

func idx(l []string, x string) int {
	for i, y := range l {
		if x == y {
			return i
		}
	}
	return 77
}

func cmdIdx(c int) int {
	for i, y := range probeCmds {
		if c == y {
			return i
		}
	}
	return 77
}

// realKey asks the real MapCommand which key string it uses for (tag, addr, cmd).
func realKey(tag, addr, cmd string) string {
	c := security.NewSessionCache()
	c.MapCommand(tag, addr, cmd, "x")
	for k := range c.VerifCommandMap() {
		return k
	}
	return ""
}

func (w *world) keyTable() map[string][3]int {
	if w.keys != nil {
		return w.keys
	}
	w.keys = map[string][3]int{}
	for ti, t := range tags {
		for ai := range addrs {
			for ci, c := range probeCmds {
				w.keys[realKey(t, w.addrName[ai], fmt.Sprint(c))] = [3]int{ti, ai, ci}
			}
		}
	}
	return w.keys
}

func (w *world) snapTerm(s snapshot) string {
	var keys []string
	for k := range s.cmdmap {
		keys = append(keys, k)
	}
	sort.Strings(keys)
	kt := w.keyTable()
	var cm []string
	for _, k := range keys {
		if tr, ok := kt[k]; ok {
			cm = append(cm, fmt.Sprintf("KT n%d n%d n%d n%d", tr[0], tr[1], tr[2], w.sidN(s.cmdmap[k])))
		} else {
			cm = append(cm, fmt.Sprintf("KS %s n%d", hexs(w.unalias(k)), w.sidN(s.cmdmap[k])))
		}
	}
	var sk []string
	for k := range s.sessions {
		sk = append(sk, k)
	}
	sort.Slice(sk, func(i, j int) bool { return w.sidN(sk[i]) < w.sidN(sk[j]) })
	var ss []string
	for _, k := range sk {
		e := s.sessions[k]
		ss = append(ss, fmt.Sprintf("SE n%d n%d n%d %s %s", w.sidN(k), idx(tags, e.Tag()), idx(w.addrName, e.Addr()),
			core.Bool(e.KeyInfo() != nil), core.Bool(e.IsExpired())))
	}
	var bi []string
	for _, id := range w.ids {
		bi = append(bi, core.Bool(s.byid[id]))
	}
	var bc []string
	i := 0
	for _, t := range tags {
		for ai := range addrs {
			for _, c := range probeCmds {
				tr := [3]string{t, w.addrName[ai], fmt.Sprint(c)}
				if id := s.bycmd[tr]; id != "" {
					bc = append(bc, fmt.Sprintf("B n%d n%d", i, w.sidN(id)))
				}
				i++
			}
		}
	}
	return fmt.Sprintf("(Build_snap %s %s %s %s)", core.List(cm), core.List(ss), core.List(bi), core.List(bc))
}

func (w *world) seenTerm(sv seenRec, r hsResult) string {
	switch sv.kind {
	case "resume":
		rep := map[string]string{"authorized": "RAuthorized", "sidnotfound": "RSidNotFound", "othercode": "ROtherCode", "nocode": "RNoCode", "broken": "RBroken"}[sv.reply]
		return fmt.Sprintf("(SResume n%d %s)", w.sidN(sv.sid), rep)
	case "full":
		if sv.reply != "ok" || r.neg == nil {
			return "SFullFail"
		}
		n := r.neg
		return fmt.Sprintf("(SFullOk n%d %s %s)", w.sidN(n.SessionId), hexs(n.ValidCommands), core.Bool(len(n.GetSharedSecret()) > 0))
	}
	if sv.kind == "dropped" {
		return "SDropped"
	}
	return "SNothing"
}

func cresTerm(r string) string {
	return map[string]string{"ok": "CROk", "resumeerr": "CRResumeErr", "othererr": "CROtherErr"}[r]
}

// ---- reference map (the oracle's own bookkeeping) -----------------------------

type refSess struct {
	id         string
	tag, addr  string
	cmds       map[string]bool
	exp, lease int64
	dead       bool // dropped by a failed resumption or invalidated
	present    bool // still stored (expired entries stay until swept)
	// registered by Store / ImportClaimSession / MintClaimSession: not the record a client handshake makes
	notClientSide bool
	// the announced lifetime was negative or overflows int64 nanoseconds: the real entry may expire
	// earlier than the announcement taken at its word (never later)
	mayDieEarly bool
}

type refMap struct {
	now    int64
	sess   map[string]*refSess
	routes map[[3]string]string // (tag, addr, cmd) -> id
}

func (r *refMap) live(id string) bool {
	s := r.sess[id]
	return s != nil && !s.dead && s.present && !(r.now > s.exp)
}
func (r *refMap) drop(id string) {
	if s := r.sess[id]; s != nil {
		s.dead, s.present = true, false
	}
	for k, v := range r.routes {
		if v == id {
			delete(r.routes, k)
		}
	}
}

type failure struct{ key, desc string }

// ---- running one history ------------------------------------------------------

type runOut struct {
	steps    []string
	tables   string
	fails    []failure
	checks   int
	counts   map[string]int
	resumed  int
	tcpError error
}

func (w *world) effAddr(e event) string {
	if e.Addr < 0 {
		return ""
	}
	return w.addrName[e.Addr]
}

func runHistory(h history) runOut {
	w := newWorld(h)
	out := runOut{counts: map[string]int{}}
	ref := &refMap{sess: map[string]*refSess{}, routes: map[[3]string]string{}}
	fail := func(key, f string, a ...interface{}) {
		out.fails = append(out.fails, failure{key, fmt.Sprintf(f, a...)})
	}
	tcps := map[int]*tcpServer{}
	defer func() {
		for _, t := range tcps {
			t.ln.Close()
		}
	}()

	// checks applied after every step, on the state of the real cache
	stateChecks := func(s snapshot, what string) {
		out.checks++
		for tr, id := range s.bycmd {
			if id == "" {
				continue
			}
			rs := ref.sess[id]
			switch {
			case rs == nil:
				fail("lookup-returns-unrelated-session", "%s: LookupByCommand(%q,%q,%s) returns a session that was never established", what, tr[0], w.unalias(tr[1]), tr[2])
			case rs.tag != tr[0]:
				fail("lookup-returns-unrelated-session", "%s: LookupByCommand(tag %q, %s, cmd %s) returns %s, established under tag %q", what, tr[0], w.unalias(tr[1]), tr[2], w.sidName(id), rs.tag)
			case rs.addr != tr[1]:
				fail("lookup-returns-unrelated-session", "%s: LookupByCommand(%q, addr %s, %s) returns %s, established to %s", what, tr[0], w.unalias(tr[1]), tr[2], w.sidName(id), w.unalias(rs.addr))
			case !rs.cmds[tr[2]]:
				fail("lookup-returns-unrelated-session", "%s: LookupByCommand(%q,%s, cmd %s) returns %s whose ValidCommands do not include it", what, tr[0], w.unalias(tr[1]), tr[2], w.sidName(id))
			case !ref.live(id):
				fail("dead-session-still-reachable", "%s: LookupByCommand(%q,%s,%s) returns %s which is expired, dropped or invalidated", what, tr[0], w.unalias(tr[1]), tr[2], w.sidName(id))
			case ref.routes[tr] != id:
				fail("lookup-returns-unrelated-session", "%s: LookupByCommand(%q,%s,%s) returns %s, the reference map has %s", what, tr[0], w.unalias(tr[1]), tr[2], w.sidName(id), w.sidName(ref.routes[tr]))
			}
		}
		for id, found := range s.byid {
			if found && !ref.live(id) {
				fail("dead-session-still-reachable", "%s: Lookup(%s) finds a session that is expired, dropped or invalidated", what, w.sidName(id))
			}
		}
		for _, t := range tags { // commands outside the alphabet that nobody may have been routed to undeclared
			for ai := range addrs {
				for _, extra := range []string{"-1", "1", "00", "60021"} {
					if en, ok := w.cache.LookupByCommand(t, w.addrName[ai], extra); ok {
						if rs := ref.sess[en.ID()]; rs == nil || rs.tag != t || rs.addr != w.addrName[ai] || !rs.cmds[extra] {
							fail("lookup-returns-unrelated-session", "%s: LookupByCommand(%q,%s,%s) returns %s, which was not declared valid for it", what, t, w.unalias(w.addrName[ai]), extra, w.sidName(en.ID()))
						}
					}
				}
			}
		}
		for k, id := range s.cmdmap {
			if _, ok := s.sessions[id]; !ok {
				fail("orphan-mapping", "%s: command mapping %s -> %s points to no stored session", what, w.unalias(k), w.sidName(id))
			}
		}
		if len(s.keyNeqID) > 0 {
			fail("session-key-mismatch", "%s: a session is stored under a key different from its id", what)
		}
	}

	// bookkeeping + checks for one observed client handshake
	afterHandshake := func(e event, sv seenRec, r hsResult, what string) {
		out.checks++
		addr := w.effAddr(e)
		cmdStr := fmt.Sprint(e.Cmd)
		if sv.kind == "dropped" && r.res == "resumeerr" && r.errSid != "" && ref.live(r.errSid) {
			// (a session that is not live cannot have been asked for: the explicit-SessionID path reports
			// "not found in cache" with the same error type and sends nothing)
			// the server closed before reading: the request was not seen; the client says it was resuming errSid
			sv = seenRec{kind: "resume", sid: r.errSid, reply: "broken"}
		}
		switch sv.kind {
		case "resume":
			out.resumed++
			rs := ref.sess[sv.sid]
			tr := [3]string{e.Tag, addr, cmdStr}
			switch {
			case rs == nil:
				fail("rode-wrong-session", "%s: resumption request names %s which was never established", what, w.sidName(sv.sid))
			case e.Explicit != 0:
				if sv.sid != w.idOfOrd(e.Explicit) || !ref.live(sv.sid) {
					fail("rode-wrong-session", "%s: explicit SessionID %s but the request names %s (live=%v)", what, w.sidName(w.idOfOrd(e.Explicit)), w.sidName(sv.sid), ref.live(sv.sid))
				}
			case rs.tag != e.Tag:
				fail("rode-wrong-session", "%s: handshake with tag %q rides %s, established under tag %q", what, e.Tag, w.sidName(sv.sid), rs.tag)
			case rs.addr != addr:
				fail("rode-wrong-session", "%s: handshake to %s rides %s, established to %s", what, w.unalias(addr), w.sidName(sv.sid), w.unalias(rs.addr))
			case e.Cmd < 0 || !rs.cmds[cmdStr]:
				fail("rode-wrong-session", "%s: handshake for command %s rides %s whose ValidCommands do not include it", what, cmdStr, w.sidName(sv.sid))
			case !ref.live(sv.sid):
				fail("rode-dead-session", "%s: handshake rides %s which is expired, dropped or invalidated", what, w.sidName(sv.sid))
			case ref.routes[tr] != sv.sid:
				fail("rode-wrong-session", "%s: handshake rides %s, the reference map has %s", what, w.sidName(sv.sid), w.sidName(ref.routes[tr]))
			}
			switch sv.reply {
			case "authorized":
				if r.res == "ok" && rs != nil && rs.lease != 0 {
					rs.exp = ref.now + rs.lease
				}
			case "sidnotfound", "broken":
				if r.res != "resumeerr" {
					fail("failed-resumption-not-reported", "%s: resumption of %s failed (%s) but the client returned %s, not a SessionResumptionError", what, w.sidName(sv.sid), sv.reply, r.res)
				}
				ref.drop(sv.sid)
				// drop-on-failure, checked on the real cache right now
				if _, ok := w.cache.Lookup(sv.sid); ok {
					fail("not-dropped-after-failure", "%s: %s still cached after a failed resumption (%s)", what, w.sidName(sv.sid), sv.reply)
				}
				if _, ok := w.cache.VerifSessionKeys()[sv.sid]; ok {
					fail("not-dropped-after-failure", "%s: %s still stored after a failed resumption (%s)", what, w.sidName(sv.sid), sv.reply)
				}
				for k, v := range w.cache.VerifCommandMap() {
					if v == sv.sid {
						fail("not-dropped-after-failure", "%s: mapping %s -> %s survives a failed resumption (%s)", what, w.unalias(k), w.sidName(sv.sid), sv.reply)
					}
				}
			}
		case "full":
			if sv.reply == "ok" && r.res == "ok" && r.neg != nil {
				id := r.neg.SessionId
				if id != sv.srvSid {
					fail("session-id-disagreement", "%s: client holds %q, server issued another id", what, w.sidName(id))
				}
				if _, dup := ref.sess[id]; dup {
					fail("session-id-reused", "%s: the server issued an id it had issued before", what)
				}
				w.ord(id)
				if addr != "" && id != "" {
					rs := &refSess{id: id, tag: e.Tag, addr: addr, cmds: map[string]bool{}, exp: ref.now + sessDuration, lease: sessLease, present: true}
					for _, c := range sv.declared {
						rs.cmds[fmt.Sprint(c)] = true
						ref.routes[[3]string{e.Tag, addr, fmt.Sprint(c)}] = id
					}
					ref.sess[id] = rs
				}
			}
		case "nothing":
			if e.Mode == "ok" && e.Explicit == 0 {
				fail("no-request", "%s: no request reached an honest server", what)
			}
		}
	}

	// servers reached through ConnectAndAuthenticate listen on loopback TCP from the start,
	// so that an address index means one address string throughout the history
	for _, e := range h.Events {
		if e.Kind == "retry" && tcps[e.Addr] == nil {
			t, err := w.startTCP(e.Addr)
			if err != nil {
				out.tcpError = err
				return out
			}
			tcps[e.Addr] = t
			real := t.ln.Addr().String()
			w.alias[real] = fmt.Sprintf("tcp-loopback:%d", e.Addr)
			w.addrName[e.Addr] = real
		}
	}
	for i, e := range h.Events {
		what := fmt.Sprintf("step %d (%s)", i, e.Kind)
		out.counts["ev-"+e.Kind]++
		var term string
		switch e.Kind {
		case "hs":
			if e.Explicit != 0 {
				if id := w.idOfOrd(e.Explicit); ref.sess[id] != nil && ref.sess[id].present && ref.now > ref.sess[id].exp {
					ref.drop(id) // ClientHandshake's LookupNonExpired removes the expired entry and every route to it
				}
			}
			sv, r := w.handshake(e)
			afterHandshake(e, sv, r, what)
			out.counts["hs-seen-"+sv.kind+"-"+sv.reply]++
			cmd := core.Opt(e.Cmd >= 0, nn(cmdIdx(e.Cmd)))
			sid := 0
			if e.Explicit != 0 {
				sid = w.sidN(w.idOfOrd(e.Explicit))
			}
			term = fmt.Sprintf("XHs n%d n%d %s %s %s %s %s", sid, idx(tags, e.Tag), core.Opt(e.Addr >= 0, nn(e.Addr)), cmd, w.seenTerm(sv, r), cresTerm(r.res), core.Bool(r.wasResumed))
		case "retry":
			// the real ConnectAndAuthenticateWithConfig over loopback TCP against server e.Addr
			tcp := tcps[e.Addr]
			acc0 := atomic.LoadInt32(&tcp.accepted)
			if e.Mode != "ok" {
				tcp.modes <- e.Mode
			}
			cfg := clientConfig(w, e)
			ctx, cancel := context.WithTimeout(context.Background(), 10*time.Second)
			cl, err := client.ConnectAndAuthenticateWithConfig(ctx, &client.ClientConfig{Address: w.addrName[e.Addr], Security: cfg, Timeout: 5 * time.Second})
			cancel()
			var neg *security.SecurityNegotiation
			if cl != nil {
				neg = cl.GetSecurityNegotiation()
				cl.Close()
			}
			var svs []seenRec
			deadline := time.Now().Add(3 * time.Second)
			for time.Now().Before(deadline) {
				want := int(atomic.LoadInt32(&tcp.accepted) - acc0)
				if want >= 1 && len(svs) >= want {
					break
				}
				select {
				case sv := <-tcp.seen:
					svs = append(svs, sv)
				case <-time.After(2 * time.Millisecond):
				}
			}
			res := "ok"
			if err != nil {
				res = "othererr"
			}
			ev1 := event{Kind: "hs", Tag: e.Tag, Addr: e.Addr, Cmd: e.Cmd, Mode: e.Mode}
			if len(svs) == 0 {
				fail("no-request", "%s: ConnectAndAuthenticate made no connection", what)
				svs = append(svs, seenRec{kind: "nothing"})
			}
			r1 := hsResult{res: "ok", neg: neg}
			firstFailed := svs[0].kind == "resume" && (svs[0].reply == "sidnotfound" || svs[0].reply == "broken")
			if firstFailed {
				r1 = hsResult{res: "resumeerr"}
			} else if err != nil {
				r1 = hsResult{res: "othererr"}
			}
			afterHandshake(ev1, svs[0], r1, what+" attempt 1")
			sv2 := "None"
			if firstFailed {
				out.checks++
				if len(svs) < 2 {
					fail("no-retry-after-failed-resumption", "%s: resumption failed (%s) and ConnectAndAuthenticate did not retry on a fresh connection", what, svs[0].reply)
				} else {
					if svs[1].kind != "full" {
						fail("retry-not-full-handshake", "%s: the attempt after a failed resumption was not a full handshake (%s)", what, svs[1].kind)
					}
					ev2 := ev1
					ev2.Mode = "ok"
					afterHandshake(ev2, svs[1], hsResult{res: res, neg: neg}, what+" attempt 2")
					sv2 = "(Some " + w.seenTerm(svs[1], hsResult{res: res, neg: neg}) + ")"
					if err != nil {
						fail("retry-failed", "%s: retry after a failed resumption did not succeed against an honest server", what)
					}
				}
			} else if len(svs) > 1 {
				fail("unexpected-retry", "%s: a second connection was made although the first attempt did not fail in resumption", what)
			}
			out.counts[fmt.Sprintf("retry-attempts-%d", len(svs))]++
			term = fmt.Sprintf("XRetry n%d n%d n%d %s %s %s", idx(tags, e.Tag), e.Addr, cmdIdx(e.Cmd), w.seenTerm(svs[0], r1), sv2, cresTerm(res))
		case "restart":
			w.servers[e.Addr].entries = map[string]*security.SessionEntry{}
			term = "XTick z0"
		case "tick":
			d := -time.Duration(e.Dt) * time.Second
			done := map[*security.SessionEntry]bool{}
			shift := func(m map[string]*security.SessionEntry) {
				for _, en := range m {
					if !done[en] {
						done[en] = true
						en.VerifShiftExpiration(d)
					}
				}
			}
			shift(w.cache.VerifSessionKeys())
			for _, s := range w.servers {
				shift(s.entries)
			}
			ref.now += int64(e.Dt)
			term = fmt.Sprintf("XTick z%d", e.Dt)
			if e.Dt < 0 { // the clock steps back
				term = fmt.Sprintf("XTick zm%d", -e.Dt)
				out.counts["clock-steps-back"]++
			}
		case "inval":
			id := w.idOfOrd(e.K)
			ret := w.cache.Invalidate(id)
			out.checks++
			rs := ref.sess[id]
			want := rs != nil && rs.present
			if rs != nil && rs.mayDieEarly {
				want = ret // it may already have expired and been removed lazily
			}
			if ret != want {
				fail("invalidate-return", "%s: Invalidate(%s) returned %v, session stored: %v", what, w.sidName(id), ret, want)
			}
			ref.drop(id)
			if ret {
				for k, v := range w.cache.VerifCommandMap() {
					if v == id {
						fail("mappings-left-after-invalidate", "%s: mapping %s -> %s survives Invalidate", what, w.unalias(k), w.sidName(id))
					}
				}
			}
			if _, ok := w.cache.VerifSessionKeys()[id]; ok {
				fail("mappings-left-after-invalidate", "%s: %s still stored after Invalidate", what, w.sidName(id))
			}
			term = fmt.Sprintf("XInvalidate n%d %s", w.sidN(id), core.Bool(ret))
		case "invalexp":
			n := w.cache.InvalidateExpired()
			out.checks++
			want := 0
			for id, rs := range ref.sess {
				if rs.present && ref.now > rs.exp {
					want++
					ref.drop(id)
				}
			}
			for id, rs := range ref.sess { // entries that died early (see mayDieEarly) and were swept as well
				if _, stored := w.cache.VerifSessionKeys()[id]; rs.present && rs.mayDieEarly && !stored {
					want++
					ref.drop(id)
				}
			}
			if n != want {
				fail("invalidate-expired-count", "%s: InvalidateExpired removed %d sessions, %d were expired", what, n, want)
			}
			for k, id := range w.cache.VerifCommandMap() {
				if _, ok := w.cache.VerifSessionKeys()[id]; !ok {
					fail("mappings-left-after-invalidate", "%s: mapping %s -> %s left by InvalidateExpired although the session is gone", what, w.unalias(k), w.sidName(id))
				}
			}
			term = fmt.Sprintf("XInvalidateExpired z%d", n)
		case "announce":
			// the client stores the session of a full handshake whose post-auth ad announced this
			// ValidCommands string (the real storeClientSession, entered through the verif hook)
			valid := validCatalogue[e.Valid%len(validCatalogue)]
			addr := w.addrName[e.Addr]
			id := fmt.Sprintf("announced:77:1700000000:%d", len(w.ids)+1)
			if e.K >= 1 && e.K <= len(w.ids) {
				id = w.idOfOrd(e.K) // the server announces an id that was issued / registered before
				out.counts["announce-known-id"]++
			}
			w.ord(id)
			cfg := &security.SecurityConfig{PeerName: addr, SecurityTag: e.Tag, SessionCache: w.cache, Command: 421}
			dl := announcedDurations[e.Dur%len(announcedDurations)]
			security.VerifStoreClientSession(cfg, nil, id, "unauthenticated@unmapped", valid, bytes.Repeat([]byte{0x6b}, 32), security.CryptoAES, int(dl[0]), int(dl[1]), w.cache)
			// what the server said, taken at its word (0 = the documented defaults): the session may die earlier
			// (an int64-nanosecond overflow makes it expire at once), it must never live longer
			specDur, specLease := dl[0], dl[1]
			if specDur == 0 {
				specDur = 3600
			}
			if specLease == 0 {
				specLease = 1800
			}
			if specLease < 0 {
				specLease = 0 // a negative lease can only shorten the life
			}
			annTail := fmt.Sprintf(" %s %s", durName[dl[0]], durName[dl[1]])
			if old := ref.sess[id]; old != nil && old.present && !(ref.now > old.exp) && old.notClientSide {
				// a live record that is not a client-side one (an imported claim session) holds the id and
				// carries another key: it is left alone, nothing is cached for the announced session
				out.counts["announce-collides-with-imported-record"]++
				term = fmt.Sprintf("XAnnounce n%d n%d n%d %s", w.sidN(id), idx(tags, e.Tag), e.Addr, hexs(valid)) + annTail
				break
			}
			for tr, v := range ref.routes {
				if v == id { // the entry that is replaced takes its routes with it
					delete(ref.routes, tr)
				}
			}
			nrs := &refSess{id: id, tag: e.Tag, addr: addr, cmds: map[string]bool{}, exp: ref.now + specDur, lease: specLease, present: true,
				mayDieEarly: dl[0] > 9223372036 || dl[1] > 9223372036 || dl[0] < 0 || dl[1] < 0}
			ref.sess[id] = nrs
			for _, f := range strings.Split(valid, ",") { // what the server declared: the non-empty elements, as written
				if f = strings.TrimSpace(f); f != "" {
					nrs.cmds[f] = true
					ref.routes[[3]string{e.Tag, addr, f}] = id
				}
			}
			out.counts["announce-validcommands"]++
			term = fmt.Sprintf("XAnnounce n%d n%d n%d %s", w.sidN(id), idx(tags, e.Tag), e.Addr, hexs(valid)) + annTail
		case "import":
			// a session id is registered again under another tag / address / command - whether the
			// earlier entry is gone or STILL STORED: by Store + MapCommand (Claim == 0, a previously
			// issued id), or through the real ImportClaimSession of claim number Claim (the same
			// claim imported again with another PeerAddr / Tag / command)
			addr, cmdStr := w.addrName[e.Addr], fmt.Sprint(e.Cmd)
			var id string
			lease := sessLease
			if e.Claim > 0 && e.Mint {
				// the mint side: MintClaimSession with Tag + PeerAddr + ExtraValidCommands files outbound routes
				m, err := security.MintClaimSession(w.cache, security.MintClaimOptions{
					Sinful: fmt.Sprintf("<10.7.7.%d:9618?sock=startd_55_%d>", e.Claim, e.Claim), Birthdate: 1700000000, SequenceNum: e.Claim,
					PeerAddr: addr, Tag: e.Tag, ExtraValidCommands: []int{e.Cmd}, Lifetime: sessDuration * time.Second})
				if err != nil {
					fail("import-failed", "%s: MintClaimSession: %v", what, err)
					continue
				}
				id, lease = m.SessionID(), 0
				w.ord(id)
				out.counts["import-mint"]++
			} else if e.Claim > 0 {
				sid, err := security.ImportClaimSession(w.cache, w.claimID(e.Claim), security.ClaimSessionOptions{
					PeerAddr: addr, Tag: e.Tag, Duration: sessDuration * time.Second, ExtraValidCommands: []int{e.Cmd}})
				if err != nil {
					fail("import-failed", "%s: ImportClaimSession: %v", what, err)
					continue
				}
				id, lease = sid, 0
				w.ord(id)
				out.counts["import-claim"]++
			} else {
				if e.K < 1 || e.K > len(w.ids) {
					continue
				}
				id = w.idOfOrd(e.K)
				en := security.NewSessionEntry(id, addr, &security.KeyInfo{Data: bytes.Repeat([]byte{0x5a}, 32), Protocol: "AES"}, nil,
					time.Now().Add(sessDuration*time.Second), sessLease*time.Second, e.Tag)
				en.SetInherited(true)
				w.cache.Store(en)
				w.cache.MapCommand(e.Tag, addr, cmdStr, id)
			}
			if old := ref.sess[id]; old != nil && old.present {
				out.counts["import-over-stored-entry"]++
			}
			nrs := &refSess{id: id, tag: e.Tag, addr: addr, cmds: map[string]bool{cmdStr: true}, exp: ref.now + sessDuration, lease: sessLease, present: true, notClientSide: true}
			for tr, v := range ref.routes {
				if v == id { // the entry that is replaced takes its routes with it
					delete(ref.routes, tr)
				}
			}
			ref.sess[id] = nrs
			ref.routes[[3]string{e.Tag, addr, cmdStr}] = id
			// no command mapping may point to an id that is not stored, so nothing old can lead here
			for k, v := range w.cache.VerifCommandMap() {
				if v == id && k != realKey(e.Tag, addr, cmdStr) {
					fail("stale-route-revived", "%s: re-registered %s is reachable through the old mapping %s", what, w.sidName(id), w.unalias(k))
				}
			}
			out.counts["import-previously-used-id"]++
			term = fmt.Sprintf("XImport n%d n%d n%d n%d z%d", w.sidN(id), idx(tags, e.Tag), e.Addr, cmdIdx(e.Cmd), lease)
		case "lne":
			id := w.idOfOrd(e.K)
			_, found := w.cache.LookupNonExpired(id)
			out.checks++
			if found && !ref.live(id) {
				fail("dead-session-still-reachable", "%s: LookupNonExpired(%s) finds a session that is expired, dropped or invalidated", what, w.sidName(id))
			}
			if rs := ref.sess[id]; rs != nil && rs.present && ref.now > rs.exp {
				ref.drop(id) // the expired entry goes, and every route to it
				for k, v := range w.cache.VerifCommandMap() {
					if v == id {
						fail("mappings-left-after-expiry", "%s: mapping %s -> %s survives the removal of the expired session by LookupNonExpired", what, w.unalias(k), w.sidName(id))
					}
				}
			}
			term = fmt.Sprintf("XLookupNonExpired n%d %s", w.sidN(id), core.Bool(found))
		default:
			continue
		}
		s := w.observe()
		stateChecks(s, what)
		out.steps = append(out.steps, fmt.Sprintf("St (%s) %s", term, w.snapTerm(s)))
	}
	out.tables = core.Bool(tcps[0] != nil) + " " + core.Bool(tcps[1] != nil)
	return out
}

// ---- generation ---------------------------------------------------------------

func allHsEvents(modes []string) []event {
	var out []event
	for _, t := range tags {
		for ai := range addrs {
			for _, c := range cmds {
				for _, m := range modes {
					out = append(out, event{Kind: "hs", Tag: t, Addr: ai, Cmd: c, Mode: m, Via: "peername"})
				}
			}
		}
	}
	return out
}

func otherEvents() []event {
	return []event{
		{Kind: "restart", Addr: 0}, {Kind: "restart", Addr: 1},
		{Kind: "tick", Dt: 500}, {Kind: "tick", Dt: 1500},
		{Kind: "inval", K: 1}, {Kind: "inval", K: 2}, {Kind: "inval", K: 99},
		{Kind: "invalexp"},
		{Kind: "lne", K: 1}, {Kind: "lne", K: 2},
	}
}

func randEvent(c *core.Ctx, pos int, prev []event) event {
	r := c.Rng
	vias := []string{"peername", "peername", "stream", "both"}
	switch x := r.Intn(100); {
	case x < 58 || pos == 0:
		e := event{Kind: "hs", Tag: tags[r.Intn(3)], Addr: r.Intn(2), Cmd: cmds[r.Intn(3)], Mode: "ok", Via: vias[r.Intn(4)]}
		// often revisit the triple of an earlier handshake, possibly with one component changed
		var hs []event
		for _, p := range prev {
			if p.Kind == "hs" && p.Addr >= 0 && p.Cmd >= 0 {
				hs = append(hs, p)
			}
		}
		for _, p := range prev { // after an announcement, often ask for command 0 or the alphabet to that address
			if p.Kind == "announce" && r.Intn(3) == 0 {
				e.Tag, e.Addr, e.Cmd = p.Tag, p.Addr, probeCmds[r.Intn(4)]
				return e
			}
		}
		if len(hs) > 0 && r.Intn(10) < 6 {
			p := hs[r.Intn(len(hs))]
			e.Tag, e.Addr, e.Cmd = p.Tag, p.Addr, p.Cmd
			switch r.Intn(6) {
			case 0:
				e.Tag = tags[r.Intn(3)]
			case 1:
				e.Addr = r.Intn(2)
			case 2:
				e.Cmd = cmds[r.Intn(3)]
			}
		}
		if r.Intn(6) == 0 { // a sub-command: equal to / different from Command, with or without a cached session
			e.AuthCmd = cmds[r.Intn(3)]
		}
		switch r.Intn(12) {
		case 0:
			e.Mode = "d1"
		case 1:
			e.Mode = "d2"
		case 2:
			e.Mode = "d3"
		}
		switch r.Intn(40) {
		case 0:
			e.Cmd = -1
		case 1:
			e.Addr = -1
			e.Via = "stream"
		case 2, 3:
			e.Explicit = 1 + r.Intn(3)
		case 4:
			e.Explicit = 99
		}
		return e
	case x < 65:
		return event{Kind: "restart", Addr: r.Intn(2)}
	case x < 77:
		return event{Kind: "tick", Dt: []int{500, 1500, 3000, 3000}[r.Intn(4)]}
	case x < 83:
		return event{Kind: "inval", K: []int{1, 2, 3, 99}[r.Intn(4)]}
	case x < 89:
		return event{Kind: "invalexp"}
	case x < 91:
		e := event{Kind: "announce", Tag: tags[r.Intn(3)], Addr: r.Intn(2), Valid: r.Intn(len(validCatalogue))}
		if r.Intn(2) == 0 {
			e.Dur = r.Intn(len(announcedDurations))
		}
		if r.Intn(3) == 0 {
			e.K = 1 + r.Intn(3)
		}
		return e
	case x < 94:
		e := event{Kind: "import", K: 1 + r.Intn(2), Tag: tags[r.Intn(3)], Addr: r.Intn(2), Cmd: cmds[r.Intn(3)]}
		if r.Intn(2) == 0 {
			e.Claim = 1 + r.Intn(2)
			e.Mint = r.Intn(2) == 0
		}
		return e
	default:
		return event{Kind: "lne", K: 1 + r.Intn(3)}
	}
}

func emit(c *core.Ctx, h history) {
	out := runHistory(h)
	if out.tcpError != nil {
		c.Note("loopback TCP unavailable: " + out.tcpError.Error())
		return
	}
	c.AddCase("Case "+out.tables+" "+core.List(out.steps), h)
	for i := 0; i < out.checks; i++ {
		c.OracleCheck()
	}
	for k, v := range out.counts {
		c.CountN(k, v)
	}
	for _, f := range out.fails {
		c.OracleFail(f.key, f.desc, h)
	}
	if out.resumed > 0 {
		b, _ := json.Marshal(h)
		c.Nontrivial(string(b))
		c.Count("history-with-resumption")
	}
	c.Count(fmt.Sprintf("history-len-%d", len(h.Events)))
}

func init() {
	if v := os.Getenv("VERIF_C07_DEADLINE_MS"); v != "" {
		var ms int
		if _, err := fmt.Sscan(v, &ms); err == nil && ms > 0 {
			silentDeadline = time.Duration(ms) * time.Millisecond
		}
	}
}

func gen(c *core.Ctx) error {
	slog.SetDefault(slog.New(slog.NewTextHandler(io.Discard, &slog.HandlerOptions{Level: slog.LevelError + 10})))
	c.Rule("histories of client handshakes over 3 tags (one empty) x 2 server addresses x 3 commands, each against the real honest ServerHandshake over net.Pipe (server may be restarted = sessions forgotten, or drop the connection before/after reading the request), interleaved with virtual-time ticks, Invalidate, InvalidateExpired, LookupNonExpired, explicit SessionID handshakes and ConnectAndAuthenticateWithConfig over loopback TCP; after every step the whole client cache (command map with the real key strings, sessions, Lookup of every id issued, LookupByCommand of all 18 triples) is compared with the Coq model and checked against an independent reference map. Exhaustive: every history [handshake; any event] and [handshake; any event; handshake] with the outer handshakes over a fixed sub-alphabet; longer histories are sampled. non-trivial = history in which at least one handshake was a resumption request")
	c.Assume("the server side is the real, honest ServerHandshake (AuthNone + ECDH/AES or plaintext); what a malicious server could make the client store is covered by the theorem (all peers), not by this run")
	c.Assume("commands are rendered by fmt.Sprintf(\"%d\"); tags and addresses contain no comma (key_inj side condition)")
	c.Exhaustive(false)

	// -1. the key strings themselves: what MapCommand files (tag, addr, cmd) under, for the alphabet and for awkward strings
	odd := []string{"", "t", "a,b", "{x}", "<h:1>", "<h:1?sock=a,b>", "tag with space", "\xc3\xa9t\xc3\xa9", "9", "-1", ",", "<", ">}", "{"}
	for _, t := range append(append([]string{}, tags...), odd...) {
		for _, a := range append(append([]string{}, addrs...), odd...) {
			for _, cm := range []string{"421", "60007", "9", "", "1,2", "<3>"} {
				if !(idx(tags, t) < 3 && idx(addrs, a) < 2) && c.Rng.Intn(8) != 0 {
					continue
				}
				k := realKey(t, a, cm)
				c.AddCase(fmt.Sprintf("KeyCase %s %s %s %s", hexs(t), hexs(a), hexs(cm), hexs(k)), map[string]string{"kind": "key", "tag": t, "addr": a, "cmd": cm})
				c.Count("key-string-case")
				// lookups must find exactly what was mapped under the same triple
				sc := security.NewSessionCache()
				sc.Store(security.NewSessionEntry("id1", a, nil, nil, time.Time{}, 0, t))
				sc.MapCommand(t, a, cm, "id1")
				c.OracleCheck()
				if e, ok := sc.LookupByCommand(t, a, cm); !ok || e.ID() != "id1" {
					c.OracleFail("mapped-command-not-found", fmt.Sprintf("MapCommand(%q,%q,%q) then LookupByCommand of the same triple finds nothing", t, a, cm), map[string]string{"kind": "key", "tag": t, "addr": a, "cmd": cm})
				}
			}
		}
	}

	// the real key strings are pairwise distinct on comma-free triples (key_inj on the real code)
	{
		cf := []string{"", "t", "ta", "g", "ag", "{x}", "<h:1>", "<h:1?sock=a>", "<h:1?sock=b>", "<h:1?ccbid=9#1>", "tagA", "tagB", "<", ">}", "{", "<10.0.0.1:9618>"}
		seenKey := map[string][3]string{}
		for _, t := range cf {
			for _, a := range cf {
				for _, cm := range []string{"421", "9", "1", "<3>"} {
					k := realKey(t, a, cm)
					c.OracleCheck()
					if prev, dup := seenKey[k]; dup && prev != [3]string{t, a, cm} {
						c.OracleFail("key-collision", fmt.Sprintf("MapCommand files (%q,%q,%q) and (%q,%q,%q) under the same key %q", prev[0], prev[1], prev[2], t, a, cm, k),
							map[string]string{"kind": "collision", "tag": t, "addr": a, "cmd": cm, "tag2": prev[0], "addr2": prev[1], "cmd2": prev[2]})
					}
					seenKey[k] = [3]string{t, a, cm}
				}
			}
		}
	}

	// ... and with the separator character inside a component they are NOT (known finding key-separator-collision):
	// a session filed under (tag "t", address "a") is found by a tag-less lookup for the address "t,a"
	{
		sc := security.NewSessionCache()
		sc.Store(security.NewSessionEntry("id-sep", "a", &security.KeyInfo{Data: bytes.Repeat([]byte{1}, 32), Protocol: "AES"}, nil, time.Time{}, 0, "t"))
		sc.MapCommand("t", "a", "1", "id-sep")
		c.OracleCheck()
		if e, ok := sc.LookupByCommand("", "t,a", "1"); ok {
			c.OracleFail("key-separator-collision", fmt.Sprintf("LookupByCommand(tag \"\", address \"t,a\", 1) returns the session filed under (tag \"t\", address %q, 1): both use the key %q", e.Addr(), realKey("t", "a", "1")),
				map[string]string{"kind": "collision", "tag": "", "addr": "t,a", "cmd": "1", "tag2": "t", "addr2": "a", "cmd2": "1"})
		}
	}

	hsOK := allHsEvents([]string{"ok"})
	hsAll := allHsEvents([]string{"ok", "d1", "d2", "d3"})
	second := append(append([]event{}, hsAll...), otherEvents()...)

	// 0. directed scenarios (minimised past findings and the scenarios of the property text)
	H := func(t string, a, cmd int) event {
		return event{Kind: "hs", Tag: t, Addr: a, Cmd: cmd, Mode: "ok", Via: "peername"}
	}
	directed := [][]event{
		{H("tagA", 0, 421), H("", 0, 421), H("tagA", 0, 421), H("tagB", 0, 421)},
		{H("", 0, 421), H("tagA", 0, 421), H("", 0, 421)},
		{H("tagA", 0, 421), H("tagA", 1, 421), H("tagA", 0, 60007), H("tagA", 0, 9)},
		{H("tagA", 0, 421), {Kind: "restart", Addr: 0}, H("tagA", 0, 421), H("tagA", 0, 421), H("tagA", 0, 60007)},
		{H("tagA", 0, 421), {Kind: "hs", Tag: "tagA", Addr: 0, Cmd: 421, Mode: "d2", Via: "peername"}, H("tagA", 0, 60007), H("tagA", 0, 421)},
		{H("tagA", 0, 421), {Kind: "hs", Tag: "tagA", Addr: 0, Cmd: 60007, Mode: "d1", Via: "peername"}, H("tagA", 0, 421)},
		// the peer swallows the resumption request and stays silent until the handshake is cancelled / times out
		{H("tagA", 0, 421), {Kind: "hs", Tag: "tagA", Addr: 0, Cmd: 421, Mode: "d3", Via: "peername"}, H("tagA", 0, 421), H("tagA", 0, 60007)},
		{H("", 1, 421), {Kind: "hs", Tag: "", Addr: 1, Cmd: 60007, Mode: "d4", Via: "stream"}, H("", 1, 421)},
		{H("tagB", 0, 9), {Kind: "hs", Tag: "tagB", Addr: 0, Cmd: 421, Mode: "d4", Via: "peername"}, {Kind: "hs", Tag: "tagB", Addr: 0, Cmd: 421, Mode: "d3", Via: "peername"}, H("tagB", 0, 421)},
		// expiry first noticed by an id lookup (lazy delete), a sweep in which nothing else expires, then the same id
		// registered again under another triple; handshakes for the old and the new triple
		{H("tagA", 0, 421), {Kind: "tick", Dt: 3000}, {Kind: "lne", K: 1}, {Kind: "invalexp"}, {Kind: "import", K: 1, Tag: "tagB", Addr: 1, Cmd: 9}, H("tagA", 0, 421), H("tagB", 1, 9), H("tagA", 0, 60007)},
		{H("", 0, 421), {Kind: "tick", Dt: 3000}, {Kind: "hs", Tag: "tagB", Addr: 1, Cmd: 9, Mode: "ok", Via: "peername", Explicit: 1}, {Kind: "invalexp"}, {Kind: "import", K: 1, Tag: "tagA", Addr: 0, Cmd: 60007}, H("", 0, 421), H("", 0, 60007), H("tagA", 0, 60007)},
		{H("tagA", 0, 421), H("tagB", 1, 60007), {Kind: "tick", Dt: 3000}, {Kind: "lne", K: 1}, {Kind: "invalexp"}, {Kind: "invalexp"}, {Kind: "import", K: 1, Tag: "", Addr: 0, Cmd: 421}, H("tagA", 0, 60007), H("", 0, 421)},
		// handshakes carrying a sub-command (AuthCommand): the cached session is looked up by Command, never by AuthCommand
		{H("tagA", 0, 421), {Kind: "hs", Tag: "tagA", Addr: 0, Cmd: 9, AuthCmd: 421, Mode: "ok", Via: "peername"}, {Kind: "hs", Tag: "tagA", Addr: 0, Cmd: 421, AuthCmd: 9, Mode: "ok", Via: "peername"},
			{Kind: "hs", Tag: "tagA", Addr: 0, Cmd: 421, AuthCmd: 421, Mode: "ok", Via: "peername"}, H("tagA", 0, 9)},
		{H("", 1, 60007), {Kind: "hs", Tag: "", Addr: 1, Cmd: 421, AuthCmd: 60007, Mode: "ok", Via: "stream"}, {Kind: "hs", Tag: "", Addr: 1, Cmd: 9, AuthCmd: 60007, Mode: "d2", Via: "peername"}, H("", 1, 60007)},
		{H("tagB", 0, 9), {Kind: "hs", Tag: "tagB", Addr: 0, Cmd: 60007, AuthCmd: 421, Mode: "ok", Via: "peername"}, {Kind: "hs", Tag: "tagB", Addr: 0, Cmd: 0, AuthCmd: 421, Mode: "ok", Via: "peername"}},
		// a server announces the id of an imported claim session (a record that is not a client-side one, other key)
		{{Kind: "import", Claim: 1, Tag: "tagA", Addr: 0, Cmd: 421}, {Kind: "announce", K: 1, Tag: "tagB", Addr: 1, Valid: 10}, H("tagB", 1, 421), H("tagB", 1, 60007), H("tagA", 0, 421)},
		{{Kind: "import", Claim: 1, Mint: true, Tag: "", Addr: 0, Cmd: 9}, {Kind: "announce", K: 1, Tag: "", Addr: 0, Valid: 10}, H("", 0, 421), H("", 0, 9), {Kind: "tick", Dt: 3000}, {Kind: "announce", K: 1, Tag: "tagA", Addr: 1, Valid: 10}, H("tagA", 1, 421)},
		// ... and the id of a session an earlier handshake established (a client-side record: replaced)
		{H("tagA", 0, 421), {Kind: "announce", K: 1, Tag: "tagB", Addr: 1, Valid: 10}, H("tagA", 0, 421), H("tagB", 1, 421)},
		// MintClaimSession with a tag, a peer address and commands: the routes are filed under that tag
		{{Kind: "import", Claim: 1, Mint: true, Tag: "tagA", Addr: 0, Cmd: 421}, H("tagA", 0, 421), H("", 0, 421), H("tagB", 0, 421)},
		{{Kind: "import", Claim: 2, Mint: true, Tag: "tagB", Addr: 1, Cmd: 9}, H("", 1, 9), H("tagB", 1, 9), {Kind: "import", Claim: 2, Mint: true, Tag: "", Addr: 1, Cmd: 60007}, H("tagB", 1, 9), H("", 1, 60007)},
		// lifetimes a server may announce: absent, negative, overflowing int64 nanoseconds; and a clock stepping back
		{{Kind: "announce", Tag: "tagA", Addr: 0, Valid: 10, Dur: 3}, H("tagA", 0, 421), {Kind: "announce", Tag: "tagA", Addr: 0, Valid: 10, Dur: 4}, H("tagA", 0, 421), {Kind: "announce", Tag: "tagA", Addr: 0, Valid: 10, Dur: 5}, {Kind: "tick", Dt: 3000}, H("tagA", 0, 421)},
		{{Kind: "announce", Tag: "", Addr: 1, Valid: 10, Dur: 1}, {Kind: "tick", Dt: 3000}, H("", 1, 421), {Kind: "tick", Dt: 1500}, H("", 1, 60007), {Kind: "announce", Tag: "", Addr: 1, Valid: 10, Dur: 2}, H("", 1, 421)},
		{{Kind: "announce", Tag: "tagB", Addr: 0, Valid: 10, Dur: 6}, {Kind: "tick", Dt: 1500}, H("tagB", 0, 421), {Kind: "tick", Dt: 1500}, H("tagB", 0, 421)},
		{H("tagA", 0, 421), {Kind: "tick", Dt: 3000}, H("tagB", 1, 9), {Kind: "tick", Dt: -1500}, {Kind: "tick", Dt: -1500}, H("tagA", 0, 60007), H("tagA", 0, 421)},
		// malformed ValidCommands announcements, then handshakes for command 0 and other never-declared commands
		{{Kind: "announce", Tag: "tagA", Addr: 0, Valid: 0}, H("tagA", 0, 0), H("tagA", 0, 421), H("tagA", 0, 9)},
		{{Kind: "announce", Tag: "", Addr: 1, Valid: 1}, H("", 1, 0), H("", 1, 60007)},
		{{Kind: "announce", Tag: "tagB", Addr: 0, Valid: 3}, H("tagB", 0, 0), H("tagB", 0, 421)},
		{{Kind: "announce", Tag: "tagB", Addr: 1, Valid: 4}, H("tagB", 1, 0), H("tagB", 1, 9)},
		{{Kind: "announce", Tag: "", Addr: 0, Valid: 5}, H("", 0, 0), H("", 0, 421)},
		{{Kind: "announce", Tag: "tagA", Addr: 1, Valid: 6}, H("tagA", 1, 0), H("tagA", 1, 421)},
		{{Kind: "announce", Tag: "tagA", Addr: 1, Valid: 11}, H("tagA", 1, 0), H("tagA", 1, 421)},
		{{Kind: "announce", Tag: "", Addr: 0, Valid: 2}, H("", 0, 9), H("", 0, 0), {Kind: "announce", Tag: "", Addr: 0, Valid: 8}, H("", 0, 0), H("", 0, 421)},
		{{Kind: "announce", Tag: "tagB", Addr: 0, Valid: 12}, H("tagB", 0, 0), {Kind: "announce", Tag: "tagB", Addr: 0, Valid: 13}, H("tagB", 0, 0), H("tagB", 0, 9), {Kind: "announce", Tag: "tagB", Addr: 0, Valid: 9}, H("tagB", 0, 421)},
		// an id that is STILL STORED is registered again under another triple; handshakes for the old and the new triple
		{H("tagA", 0, 421), {Kind: "import", K: 1, Tag: "tagB", Addr: 1, Cmd: 9}, H("tagA", 0, 421), H("tagA", 0, 60007), H("tagB", 1, 9)},
		{{Kind: "import", Claim: 1, Tag: "tagA", Addr: 0, Cmd: 421}, {Kind: "import", Claim: 1, Tag: "", Addr: 1, Cmd: 9}, H("tagA", 0, 421), H("", 1, 9), {Kind: "import", Claim: 1, Tag: "", Addr: 1, Cmd: 60007}, H("", 1, 9), H("", 1, 60007)},
		{{Kind: "import", Claim: 1, Tag: "tagB", Addr: 0, Cmd: 421}, {Kind: "import", Claim: 2, Tag: "tagB", Addr: 0, Cmd: 421}, {Kind: "import", Claim: 1, Tag: "tagB", Addr: 1, Cmd: 421}, H("tagB", 0, 421), H("tagB", 1, 421)},
		{H("", 0, 9), {Kind: "tick", Dt: 1500}, {Kind: "import", K: 1, Tag: "", Addr: 0, Cmd: 60007}, {Kind: "tick", Dt: 1500}, H("", 0, 421), H("", 0, 60007)},
		// the same without a sweep in between (fixed by c4d0e8b: LookupNonExpired removes the mappings itself)
		{H("tagA", 0, 421), {Kind: "tick", Dt: 3000}, {Kind: "lne", K: 1}, {Kind: "import", K: 1, Tag: "tagB", Addr: 1, Cmd: 9}, H("tagA", 0, 421), H("tagB", 1, 9)},
		{H("", 1, 9), {Kind: "tick", Dt: 1500}, H("", 1, 9), {Kind: "tick", Dt: 500}, H("", 1, 421), {Kind: "tick", Dt: 500}, H("", 1, 9)},
		{H("tagB", 0, 9), {Kind: "tick", Dt: 3000}, {Kind: "lne", K: 1}, {Kind: "inval", K: 1}, H("tagB", 0, 9), {Kind: "invalexp"}},
		{H("tagB", 0, 9), H("tagB", 0, 421), {Kind: "inval", K: 2}, H("tagB", 0, 421), H("tagB", 0, 9)},
		{H("tagB", 0, 9), H("tagB", 0, 421), {Kind: "inval", K: 1}, H("tagB", 0, 421), H("tagB", 0, 9)},
		{H("tagA", 0, 421), {Kind: "restart", Addr: 0}, {Kind: "retry", Tag: "tagA", Addr: 0, Cmd: 421, Mode: "ok"}, {Kind: "retry", Tag: "tagA", Addr: 0, Cmd: 421, Mode: "ok"}},
		{{Kind: "retry", Tag: "", Addr: 0, Cmd: 9, Mode: "ok"}, {Kind: "retry", Tag: "", Addr: 0, Cmd: 421, Mode: "d2"}, {Kind: "retry", Tag: "", Addr: 0, Cmd: 9, Mode: "ok"}},
		{{Kind: "retry", Tag: "tagB", Addr: 1, Cmd: 60007, Mode: "ok"}, {Kind: "restart", Addr: 1}, {Kind: "retry", Tag: "tagB", Addr: 1, Cmd: 60007, Mode: "ok"}, {Kind: "tick", Dt: 3000}, {Kind: "retry", Tag: "tagB", Addr: 1, Cmd: 60007, Mode: "ok"}},
		{H("tagA", 0, 421), {Kind: "hs", Tag: "tagB", Addr: 1, Cmd: 9, Mode: "ok", Via: "peername", Explicit: 1}, H("tagA", 0, 421)},
		{H("tagA", 0, 421), {Kind: "hs", Tag: "tagA", Addr: 0, Cmd: 421, Mode: "ok", Via: "peername", Explicit: 99}},
		{{Kind: "hs", Tag: "tagA", Addr: 0, Cmd: -1, Mode: "ok", Via: "peername"}, H("tagA", 0, 421)},
		{{Kind: "hs", Tag: "tagA", Addr: -1, Cmd: 421, Mode: "ok", Via: "stream"}, {Kind: "hs", Tag: "tagA", Addr: -1, Cmd: 421, Mode: "ok", Via: "stream"}},
		{{Kind: "hs", Tag: "tagA", Addr: 0, Cmd: 421, Mode: "ok", Via: "both"}, {Kind: "hs", Tag: "tagA", Addr: 1, Cmd: 421, Mode: "ok", Via: "stream"}, {Kind: "hs", Tag: "tagA", Addr: 0, Cmd: 421, Mode: "ok", Via: "stream"}},
	}
	for _, ev := range directed {
		for _, plain := range []bool{false, true} {
			emit(c, history{Events: ev, Plain1: plain})
			c.Count("directed")
		}
	}
	// 1. exhaustive: [hs ok x ; e] over the full alphabet
	for _, a := range hsOK {
		for _, b := range second {
			emit(c, history{Events: []event{a, b}, Plain1: false})
			c.Count("exhaustive-len2")
		}
	}
	// 2. exhaustive: [hs ok x ; e ; hs ok y] for x over tags x {addr0} x {421, 9}, every e, every y
	if !c.Quick() {
		for _, a := range hsOK {
			if a.Addr != 0 || a.Cmd == 60007 {
				continue
			}
			for _, b := range second {
				for _, y := range hsOK {
					emit(c, history{Events: []event{a, b, y}, Plain1: false})
					c.Count("exhaustive-len3")
				}
			}
		}
	}
	// 3. sampled longer histories
	n := 800
	if !c.Quick() {
		n = 12000
	}
	for i := 0; i < n; i++ {
		l := 3 + c.Rng.Intn(5)
		var ev []event
		for k := 0; k < l; k++ {
			ev = append(ev, randEvent(c, k, ev))
		}
		if c.Rng.Intn(8) == 0 { // ConnectAndAuthenticate steps: establish over TCP, maybe restart, connect again
			t, a, cm := tags[c.Rng.Intn(3)], c.Rng.Intn(2), cmds[c.Rng.Intn(3)]
			ev = append(ev, event{Kind: "retry", Tag: t, Addr: a, Cmd: cm, Mode: "ok"})
			if c.Rng.Intn(3) > 0 {
				ev = append(ev, event{Kind: "restart", Addr: a})
			}
			ev = append(ev, event{Kind: "retry", Tag: t, Addr: a, Cmd: cm, Mode: []string{"ok", "ok", "d2"}[c.Rng.Intn(3)]})
		}
		h := history{Events: ev, Plain1: c.Rng.Intn(4) == 0}
		emit(c, h)
		c.Count("sampled")
		if i < 3 {
			c.Sample(h)
		}
	}
	return nil
}

func replay(raw json.RawMessage) error {
	slog.SetDefault(slog.New(slog.NewTextHandler(io.Discard, &slog.HandlerOptions{Level: slog.LevelError + 10})))
	var kc struct {
		Kind, Tag, Addr, Cmd, Tag2, Addr2, Cmd2 string
	}
	if json.Unmarshal(raw, &kc) == nil && kc.Kind == "collision" {
		if realKey(kc.Tag, kc.Addr, kc.Cmd) == realKey(kc.Tag2, kc.Addr2, kc.Cmd2) {
			return errors.New("key-collision: two distinct comma-free triples share a key string")
		}
		return nil
	}
	if json.Unmarshal(raw, &kc) == nil && kc.Kind == "key" {
		sc := security.NewSessionCache()
		sc.Store(security.NewSessionEntry("id1", kc.Addr, nil, nil, time.Time{}, 0, kc.Tag))
		sc.MapCommand(kc.Tag, kc.Addr, kc.Cmd, "id1")
		if e, ok := sc.LookupByCommand(kc.Tag, kc.Addr, kc.Cmd); !ok || e.ID() != "id1" {
			return errors.New("mapped-command-not-found")
		}
		return nil
	}
	var h history
	if err := json.Unmarshal(raw, &h); err != nil {
		return err
	}
	out := runHistory(h)
	if out.tcpError != nil {
		return nil
	}
	if len(out.fails) > 0 {
		return errors.New(out.fails[0].key + ": " + out.fails[0].desc)
	}
	return nil
}

var _ = classad.New

func main() { core.Main("C07", gen, replay) }
