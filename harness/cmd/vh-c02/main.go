// vh-c02: correspondence + oracle for C02 (an encrypted stream delivers only an authentic in-order prefix).
package main

import (
	"bytes"
	"encoding/json"
	"fmt"

	"verifharness/core"
	ss "verifharness/streamsim"
)

var key = bytes.Repeat([]byte{0x33}, 32)

type desc struct {
	Setup  ss.Setup      `json:"setup"`
	Back   []ss.Msg      `json:"back,omitempty"` // sent first by the RECEIVER of the attacked transcript (material for reflection)
	Warm   []ss.Msg      `json:"warm"`           // delivered honestly first (so faults also hit non-first frames)
	Msgs   []ss.Msg      `json:"msgs"`           // the transcript that is attacked
	Edit   []ss.EditItem `json:"edit"`
	API    string        `json:"api"`
	ASends bool          `json:"a_sends"`
	Fault  string        `json:"fault"`
	ReadOn bool          `json:"read_on,omitempty"` // frame-level reads continue after failures
	Toggle bool          `json:"toggle,omitempty"`  // both ends switch encryption off and on again after the warm-up
}

func honest(n int) []ss.EditItem {
	var e []ss.EditItem
	for j := 0; j < n; j++ {
		e = append(e, ss.EditItem{Kind: "gen", J: j, Flag: -1})
	}
	return e
}

// frames per message for the message kinds used here (direct only: one frame per chunk)
func frameCount(ms []ss.Msg) int {
	n := 0
	for _, m := range ms {
		if m.Kind == "file" { // size, 64 KiB pieces, end marker
			n += 2 + (len(m.Bytes())+65535)/65536
			continue
		}
		if len(m.Chunks) == 0 {
			n++
		}
		n += len(m.Chunks)
	}
	return n
}

func build(d *desc) *ss.Case {
	c := &ss.Case{Setup: d.Setup}
	if len(d.Back) > 0 {
		st := ss.Step{Kind: "phase", ASends: !d.ASends, NoWire: true}
		for _, m := range d.Back {
			st.SOps = append(st.SOps, m.SOps()...)
			st.ROps = append(st.ROps, ss.ROpsFor("complete", len(m.Bytes()), 0)...)
		}
		c.Steps = append(c.Steps, st)
	}
	if len(d.Warm) > 0 {
		st := ss.Step{Kind: "phase", ASends: d.ASends, NoWire: d.Fault != "none"}
		for _, m := range d.Warm {
			st.SOps = append(st.SOps, m.SOps()...)
			api := "complete"
			if m.Kind == "secret" {
				api = "secret" // GetSecret on the receiving side
			}
			st.ROps = append(st.ROps, ss.ROpsFor(api, len(m.Bytes()), 0)...)
		}
		c.Steps = append(c.Steps, st)
	}
	if d.Toggle {
		c.Steps = append(c.Steps, ss.Step{Kind: "crypto", WhoA: true, On: false}, ss.Step{Kind: "crypto", WhoA: false, On: false},
			ss.Step{Kind: "crypto", WhoA: true, On: true}, ss.Step{Kind: "crypto", WhoA: false, On: true})
	}
	st := ss.Step{Kind: "phase", ASends: d.ASends, HasEdit: true, Edit: d.Edit, NoWire: d.Fault != "none", ReadOn: d.ReadOn}
	for _, m := range d.Msgs {
		st.SOps = append(st.SOps, m.SOps()...)
		st.ROps = append(st.ROps, ss.ROpsFor(d.API, len(m.Bytes()), 1000)...)
	}
	// one more read than messages sent: nothing extra may ever be delivered
	st.ROps = append(st.ROps, ss.ROpsFor(d.API, 1, 1000)...)
	if d.ReadOn { // one read per frame of the edited stream, and one more
		for len(st.ROps) < len(d.Edit)+1 {
			st.ROps = append(st.ROps, ss.ROpsFor(d.API, 1, 1000)...)
		}
	}
	c.Steps = append(c.Steps, st)
	return c
}

// oracle: messages delivered before the first error are a prefix of the sent ones, and none at
// or after the first message touched by the first difference between sent and edited streams.
func check(d *desc, obs *ss.Obs) error {
	if obs.SetupErr != nil {
		return fmt.Errorf("setup: %v", obs.SetupErr)
	}
	po := obs.Phases[len(obs.Phases)-1]
	for _, e := range po.SErr {
		if e {
			return fmt.Errorf("honest sender refused")
		}
	}
	if d.ReadOn {
		// frame-level reads that go on after failures: whatever is accepted, before or after an
		// error, must still be the sender's frames in order with none skipped
		var got [][]byte
		for _, r := range po.RRes {
			if r.OK {
				got = append(got, r.Data)
			}
		}
		for i, g := range got {
			if i >= len(d.Msgs) {
				return fmt.Errorf("fault %q: reading on after errors, the receiver accepted %d frames, only %d were sent", d.Fault, len(got), len(d.Msgs))
			}
			if !bytes.Equal(g, d.Msgs[i].Bytes()) {
				return fmt.Errorf("fault %q: reading on after errors, accepted frame %d (%d bytes) is not the sender's frame %d (%d bytes): data skipped, repeated or altered", d.Fault, i, len(g), i, len(d.Msgs[i].Bytes()))
			}
		}
		return nil
	}
	// group receive results into messages
	var delivered [][]byte
	ri := 0
	sizes := []int{}
	for _, m := range d.Msgs {
		sizes = append(sizes, len(m.Bytes()))
	}
	sizes = append(sizes, 1)
	for _, n := range sizes {
		k := len(ss.ROpsFor(d.API, n, 1000))
		if ri+k > len(po.RRes) {
			break
		}
		got, ok := ss.Delivered(d.API, po.RRes[ri:ri+k])
		ri += k
		if !ok {
			break
		}
		delivered = append(delivered, got)
	}
	for i, g := range delivered {
		if i >= len(d.Msgs) {
			return fmt.Errorf("fault %q: receiver delivered %d messages, only %d were sent (extra message of %d bytes)", d.Fault, len(delivered), len(d.Msgs), len(g))
		}
		if !bytes.Equal(g, d.Msgs[i].Bytes()) {
			return fmt.Errorf("fault %q: delivered message %d (%d bytes) differs from the sent one (%d bytes)", d.Fault, i, len(g), len(d.Msgs[i].Bytes()))
		}
	}
	// first differing frame between what was sent in this phase and what the receiver saw
	warmFrames := frameCount(d.Warm)
	hist := obs.HistAB
	if !d.ASends {
		hist = obs.HistBA
	}
	sent := hist[warmFrames:]
	q := len(sent)
	for i := 0; i < len(sent); i++ {
		if i >= len(po.EditedFrames) || !bytes.Equal(po.EditedFrames[i].Bytes(), sent[i].Bytes()) {
			q = i
			break
		}
	}
	// message index containing frame q
	m, acc := len(d.Msgs), 0
	for i, ms := range d.Msgs {
		acc += frameCount([]ss.Msg{ms})
		if q < acc {
			m = i
			break
		}
	}
	if q < len(sent) && len(delivered) > m {
		return fmt.Errorf("fault %q: first affected frame %d belongs to message %d but %d messages were delivered", d.Fault, q, m, len(delivered))
	}
	return nil
}

func run(c *core.Ctx, d *desc) error {
	cs := build(d)
	obs, term := ss.Exec(cs)
	if c != nil && obs.SetupErr == nil {
		c.AddCase(term, d)
	}
	return check(d, obs)
}

// bareReflection: the receiver is handed its OWN first protected frame while it still waits for
// the peer's first frame, on a pair keyed without any cleartext in either direction (both
// handshake digests are the zero block, so nothing distinguishes the directions).
func bareReflection(d *desc) bool {
	return len(d.Fault) >= 23 && d.Fault[:23] == "reflect own first frame" && len(d.Setup.PreAB) == 0 && len(d.Setup.PreBA) == 0 && len(d.Warm) == 0
}

func dmsg(off int, parts ...int) ss.Msg {
	m := ss.Msg{Kind: "direct"}
	for i, p := range parts {
		m.Chunks = append(m.Chunks, ss.Lit(core.Payload(off+i*7, p)))
	}
	return m
}

func gen(c *core.Ctx) error {
	c.Rule("real encrypted transcripts between two keyed Streams (single- and multi-frame messages, both directions, first-frame and later-frame positions, with and without cleartext prefix) x every single fault of a catalogue: each bit of every header; bytes of IV, ciphertext, tag; each frame dropped, duplicated, swapped with its neighbour, replayed later, cut short; header length field forged; forged frames of length 0, 1..15, 16, 17.., with both end flags, inserted at every position; plus random multi-fault combinations. The edited byte stream is fed to the real receiver; the Coq model receives the same stream symbolically (genuine bodies by index, everything else raw bytes). non-trivial = fault that changes the byte stream; distinct by (transcript, fault)")
	transcripts := [][]ss.Msg{
		{dmsg(1, 5), dmsg(2, 0), dmsg(3, 9)},
		{dmsg(4, 3, 4, 2), dmsg(5, 6)},
		{dmsg(6, 20), dmsg(7, 1, 1), dmsg(8, 2)},
		{{Kind: "file", Chunks: []ss.Data{ss.Lit(core.Payload(3, 10))}}}, // PutFile / GetFile: size, content, end marker
	}
	if !c.Quick() {
		transcripts = append(transcripts, []ss.Msg{{Kind: "file", Chunks: []ss.Data{ss.Pay(5, 70000)}}}) // two content frames
	}
	setups := []ss.Setup{{Kind: "keyed", Key: key}, {Kind: "keyed", Key: key, PreAB: []ss.Data{ss.Lit([]byte("hi"))}, PreBA: []ss.Data{ss.Lit([]byte("there"))}, ReadMax: 7, Ctx: true}}
	apis := []string{"complete", "msgall", "sre"}
	k := 0
	try := func(d *desc) {
		k++
		c.OracleCheck()
		if err := run(c, d); err != nil {
			if bareReflection(d) {
				c.OracleFail("reflection-without-handshake-digests", err.Error(), d)
			} else {
				c.OracleFail("prefix", err.Error(), d)
			}
		}
		c.Nontrivial(fmt.Sprint(d.Setup.PreAB != nil, d.ASends, len(d.Warm), d.Fault, len(d.Msgs)))
		c.Count("fault-" + faultClass(d.Fault))
		if k%97 == 1 {
			c.Sample(map[string]interface{}{"fault": d.Fault, "api": d.API, "warm": len(d.Warm), "frames": frameCount(d.Msgs)})
		}
	}
	for ti, tr := range transcripts {
		heavy := len(tr[0].Bytes()) > 10000 // a large transcript gets the quick tier's fault strides even in thorough
		for si, su := range setups {
			for wi, warm := range []bool{false, true, true, true} {
				toggle := wi == 3 // after the warm-up both ends switch encryption off and on again: counters must go on
				if toggle && !(ti == 0 || (!c.Quick() && ti == 1)) {
					continue
				}
				if c.Quick() && (ti+si)%2 == 1 && warm && wi == 1 {
					continue
				}
				withSecret := wi == 2 // warm-up contains a PutSecret/GetSecret exchange on the encrypting stream
				if withSecret && !(ti == 0 || !c.Quick()) {
					continue
				}
				aSends := (ti+si)%2 == 0
				var w []ss.Msg
				base := 0
				if warm {
					w = []ss.Msg{dmsg(9, 4)}
					base = 1
				}
				if withSecret {
					w = []ss.Msg{dmsg(9, 4), {Kind: "secret", Chunks: []ss.Data{ss.Lit([]byte("s3cret"))}}}
					base = 2
				}
				n := frameCount(tr)
				mk := func(fault string, edit []ss.EditItem) *desc {
					api := apis[k%3]
					if ti == 0 { // single-frame messages: also the per-frame receive APIs (ReceiveFrame is what GetSecret/GetFile use)
						api = []string{"complete", "frame", "msgall", "framewe", "sre", "frame"}[k%6]
					}
					if tr[0].Kind == "file" {
						api = "getfile"
					}
					readOn := false
					if ti == 0 && (api == "frame" || api == "framewe") && (k/6)%2 == 0 {
						switch faultClass(fault) { // faults that keep the framing intact
						case "none", "flip body", "drop", "duplicate", "swap", "replay", "replace", "insert forged", "reflect", "insert own":
							readOn = true
						}
					}
					return &desc{Setup: su, Warm: w, Msgs: tr, Edit: edit, API: api, ASends: aSends, Fault: fault, ReadOn: readOn, Toggle: toggle}
				}
				idx := func(j int) ss.EditItem { return ss.EditItem{Kind: "gen", J: base + j, Flag: -1} }
				full := func() []ss.EditItem {
					var e []ss.EditItem
					for j := 0; j < n; j++ {
						e = append(e, idx(j))
					}
					return e
				}
				try(mk("none", full()))
				for j := 0; j < n; j++ {
					// header bits
					hstep := 1
					if (c.Quick() || heavy) && j > 1 && j < n-1 {
						hstep = 5
					}
					for bit := 0; bit < 40; bit += hstep {
						e := full()
						e[j] = ss.EditItem{Kind: "flip", J: base + j, Pos: bit}
						try(mk(fmt.Sprintf("flip header bit %d of frame %d", bit, j), e))
					}
					// body bits: IV / ciphertext / tag region, stride
					stride := 61
					if !c.Quick() && !heavy {
						stride = 1
					}
					for bit := 40; bit < 40+8*64; bit += stride {
						e := full()
						e[j] = ss.EditItem{Kind: "flip", J: base + j, Pos: bit}
						try(mk(fmt.Sprintf("flip body bit %d of frame %d", bit-40, j), e))
					}
					// drop
					e := append(append([]ss.EditItem{}, full()[:j]...), full()[j+1:]...)
					try(mk(fmt.Sprintf("drop frame %d", j), e))
					// duplicate
					e = append(append(append([]ss.EditItem{}, full()[:j+1]...), idx(j)), full()[j+1:]...)
					try(mk(fmt.Sprintf("duplicate frame %d", j), e))
					// swap with neighbour
					if j+1 < n {
						e = full()
						e[j], e[j+1] = e[j+1], e[j]
						try(mk(fmt.Sprintf("swap frames %d,%d", j, j+1), e))
					}
					// replay later
					for p := j + 2; p <= n; p++ {
						e = append(append(append([]ss.EditItem{}, full()[:p]...), idx(j)), full()[p:]...)
						try(mk(fmt.Sprintf("replay frame %d at %d", j, p), e))
					}
					// a warm-up frame (consumed before the transcript, and before the off/on toggle if any) inserted
					if warm && (j == 0 || j == n-1) {
						for wj := 0; wj < base; wj++ {
							p := j
							if j == n-1 {
								p = n
							}
							e = append(append(append([]ss.EditItem{}, full()[:p]...), ss.EditItem{Kind: "gen", J: wj, Flag: -1}), full()[p:]...)
							try(mk(fmt.Sprintf("replay warm-up frame %d at %d", wj, p), e))
						}
					}
					// replay a warm-up frame (already consumed) in place
					if warm {
						e = full()
						e[j] = ss.EditItem{Kind: "gen", J: 0, Flag: -1}
						try(mk(fmt.Sprintf("replace frame %d by an earlier frame", j), e))
					}
					// cut short
					for _, keep := range []int{0, 3, 5, 6, 20} {
						e = full()
						e[j] = ss.EditItem{Kind: "cut", J: base + j, Pos: keep}
						try(mk(fmt.Sprintf("cut frame %d to %d bytes", j, keep), e))
					}
					// end-flag rewritten with body intact
					for _, fl := range []int{0, 1, 2, 10, 11} {
						e = full()
						e[j] = ss.EditItem{Kind: "gen", J: base + j, Flag: fl}
						try(mk(fmt.Sprintf("set end flag of frame %d to %d", j, fl), e))
					}
					// forged length field
					for _, ln := range []int{0, 1, 15, 16, 31} {
						e = full()
						e[j] = ss.EditItem{Kind: "hdr", J: base + j, Len: ln}
						try(mk(fmt.Sprintf("forge length %d on frame %d", ln, j), e))
					}
				}
				// forged frames inserted at every position
				for p := 0; p <= n; p++ {
					for _, ln := range []int{0, 1, 15, 16, 17, 32, 33, 48} {
						for _, fl := range []int{0, 1} {
							raw := bytes.Repeat([]byte{0xa5}, ln)
							e := append(append(append([]ss.EditItem{}, full()[:p]...), ss.EditItem{Kind: "raw", Flag: fl, Raw: raw}), full()[p:]...)
							try(mk(fmt.Sprintf("insert forged frame len %d flag %d at %d", ln, fl, p), e))
						}
					}
				}
				// reflection: frames the receiver itself sent are handed back to it
				if !withSecret {
					back := []ss.Msg{dmsg(11, 6), dmsg(12, 2, 3)}
					mkr := func(fault string, edit []ss.EditItem) *desc {
						d := mk(fault, edit)
						d.Back = back
						return d
					}
					for bi := 0; bi < 3; bi++ { // the receiver's own frames: 0 carries its IV
						for j := 0; j < n; j++ {
							e := full()
							e[j] = ss.EditItem{Kind: "refl", J: bi, Flag: -1}
							name := fmt.Sprintf("reflect own frame %d in place of frame %d", bi, j)
							if bi == 0 && j == 0 {
								name = fmt.Sprintf("reflect own first frame in place of frame %d", j)
							}
							try(mkr(name, e))
						}
						for p := 0; p <= n; p += 2 {
							e := append(append(append([]ss.EditItem{}, full()[:p]...), ss.EditItem{Kind: "refl", J: bi, Flag: -1}), full()[p:]...)
							name := fmt.Sprintf("insert own frame %d at %d", bi, p)
							if bi == 0 && p == 0 {
								name = "reflect own first frame inserted at 0"
							}
							try(mkr(name, e))
						}
					}
				}
				// poisoning: a forged first frame whose IV is the nonce of one of the receiver's own later
				// frames, then that frame reflected back (and the genuine transcript): nothing of the
				// receiver's own traffic may ever be delivered to it, however long it reads on
				if !withSecret && !warm {
					back := []ss.Msg{dmsg(11, 6), dmsg(12, 2, 3)}
					for bj := 1; bj < 3; bj++ {
						for _, tail := range [][]ss.EditItem{nil, full()} {
							e := append([]ss.EditItem{{Kind: "poison", J: bj}, {Kind: "refl", J: bj, Flag: -1}}, tail...)
							d := mk(fmt.Sprintf("reflect own frame %d after a forged first frame carrying its nonce as IV", bj), e)
							d.Back = back
							if ti == 0 {
								d.API, d.ReadOn = "framewe", true
							}
							try(d)
						}
					}
				}
				// random multi-fault combinations
				nr := 10
				if !c.Quick() && !heavy {
					nr = 300
				}
				for r := 0; r < nr; r++ {
					e := full()
					var names []string
					for f := 0; f < 2+c.Rng.Intn(2); f++ {
						j := c.Rng.Intn(len(e))
						switch c.Rng.Intn(4) {
						case 0:
							e = append(e[:j], e[j+1:]...)
							names = append(names, "drop")
						case 1:
							e = append(append(append([]ss.EditItem{}, e[:j]...), ss.EditItem{Kind: "raw", Flag: c.Rng.Intn(2), Raw: bytes.Repeat([]byte{1}, c.Rng.Intn(40))}), e[j:]...)
							names = append(names, "insert")
						case 2:
							e[j] = ss.EditItem{Kind: "flip", J: base + c.Rng.Intn(n), Pos: c.Rng.Intn(8 * 30)}
							names = append(names, "flip")
						default:
							e[j] = idx(c.Rng.Intn(n))
							names = append(names, "replace")
						}
						if len(e) == 0 {
							break
						}
					}
					try(mk(fmt.Sprintf("multi %v #%d", names, r), e))
				}
			}
		}
	}
	return nil
}

func faultClass(f string) string {
	for _, p := range []string{"none", "reflect", "insert own", "flip header", "flip body", "drop", "duplicate", "swap", "replay", "replace", "cut", "set end flag", "forge length", "insert forged", "multi"} {
		if len(f) >= len(p) && f[:len(p)] == p {
			return p
		}
	}
	return "other"
}

func replay(raw json.RawMessage) error {
	var d desc
	if err := json.Unmarshal(raw, &d); err != nil {
		return err
	}
	return run(nil, &d)
}

func main() { core.Main("C02", gen, replay) }
