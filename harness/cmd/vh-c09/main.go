// vh-c09: correspondence + canary oracle for C09 (private attributes are never
// serialised unless asked for, nor sent in the clear).
package main

import (
	"bytes"
	"context"
	"encoding/binary"
	"encoding/json"
	"fmt"
	"io"
	"net"
	"sort"
	"strconv"
	"strings"
	"time"
	"unicode"

	"verifharness/core"
	"verifharness/mock"

	"github.com/PelicanPlatform/classad/classad"
	"github.com/bbockelm/cedar/message"
	"github.com/bbockelm/cedar/stream"
)

var ctx = context.Background()

// ---------------------------------------------------------------------------
// the property's own notion of "private" (written from the statement, not from
// the code): ASCII case-insensitive match of a fixed name / of the prefix.

var fixedPrivate = []string{"Capability", "ChildClaimIds", "ClaimId", "ClaimIdList", "ClaimIds", "TransferKey"}

const privPrefix = "_condor_priv"

func asciiLower(s string) string {
	b := []byte(s)
	for i, c := range b {
		if c >= 'A' && c <= 'Z' {
			b[i] = c + 32
		}
	}
	return string(b)
}
func specV1(name string) bool {
	l := asciiLower(name)
	for _, f := range fixedPrivate {
		if l == asciiLower(f) {
			return true
		}
	}
	return false
}
func specV2(name string) bool {
	return len(name) >= len(privPrefix) && asciiLower(name[:len(privPrefix)]) == privPrefix
}
func specPrivate(name string) bool { return specV1(name) || specV2(name) }

// ---------------------------------------------------------------------------
// in-memory connection

type memConn struct {
	wr bytes.Buffer // everything written
	rd *bytes.Reader
}

func (m *memConn) Read(p []byte) (int, error) {
	if m.rd == nil {
		return 0, io.EOF
	}
	return m.rd.Read(p)
}
func (m *memConn) Write(p []byte) (int, error)        { return m.wr.Write(p) }
func (m *memConn) Close() error                       { return nil }
func (m *memConn) LocalAddr() net.Addr                { return nil }
func (m *memConn) RemoteAddr() net.Addr               { return nil }
func (m *memConn) SetDeadline(t time.Time) error      { return nil }
func (m *memConn) SetReadDeadline(t time.Time) error  { return nil }
func (m *memConn) SetWriteDeadline(t time.Time) error { return nil }

type tframe struct {
	Sealed bool   `json:"sealed"`
	EOM    bool   `json:"eom"`
	Data   []byte `json:"data"`
}

// recStream forwards to a real *stream.Stream and records the plaintext of
// each frame written together with whether the bytes that reached the
// connection were the plaintext (clear) or not (sealed).
type recStream struct {
	s      *stream.Stream
	conn   *memConn
	frames []tframe
}

func (r *recStream) ReadFrame(c context.Context) ([]byte, bool, error) { return r.s.ReadFrame(c) }
func (r *recStream) WriteFrame(c context.Context, data []byte, eom bool) error {
	before := r.conn.wr.Len()
	plain := append([]byte(nil), data...)
	err := r.s.WriteFrame(c, data, eom)
	wrote := r.conn.wr.Bytes()[before:]
	clear := len(wrote) == 5+len(plain) && bytes.Equal(wrote[5:], plain)
	r.frames = append(r.frames, tframe{Sealed: !clear, EOM: eom, Data: plain})
	return err
}
func (r *recStream) IsEncrypted() bool          { return r.s.IsEncrypted() }
func (r *recStream) PrepareCryptoForSecret()    { r.s.PrepareCryptoForSecret() }
func (r *recStream) RestoreCryptoAfterSecret()  { r.s.RestoreCryptoAfterSecret() }
func (r *recStream) CryptoForSecretIsNoop() bool { return r.s.CryptoForSecretIsNoop() }

var sessionKey = []byte("0123456789abcdef0123456789ABCDEF")

func newStream(conn *memConn, key, enc bool) (*stream.Stream, error) {
	s := stream.NewStream(conn)
	if key {
		if err := s.SetSymmetricKey(sessionKey); err != nil {
			return nil, err
		}
	}
	s.SetEncrypted(enc)
	return s, nil
}

// ---------------------------------------------------------------------------
// scenarios

type attrSpec struct {
	Name string `json:"name"`
	Kind string `json:"kind"` // str int bool expr
	Val  string `json:"val"`
}
type scenario struct {
	Key   bool       `json:"key"`
	Enc   bool       `json:"enc"`
	Opts  int        `json:"opts"`
	WL    []string   `json:"wl"`
	EncA  []string   `json:"enc_attrs"`
	Peer  []int      `json:"peer"` // nil or [maj,min,patch]
	Attrs []attrSpec `json:"attrs"`
}

func (sc scenario) config() *message.PutClassAdConfig {
	cfg := &message.PutClassAdConfig{Options: message.PutClassAdOptions(sc.Opts), Whitelist: sc.WL, EncryptedAttrs: sc.EncA}
	if sc.Peer != nil {
		cfg.PeerVersion = message.NewHTCondorVersion(sc.Peer[0], sc.Peer[1], sc.Peer[2])
	}
	return cfg
}

func buildAd(attrs []attrSpec) (*classad.ClassAd, error) {
	ad := classad.New()
	for _, a := range attrs {
		switch a.Kind {
		case "str":
			_ = ad.Set(a.Name, a.Val)
		case "int":
			n, _ := strconv.ParseInt(a.Val, 10, 64)
			_ = ad.Set(a.Name, n)
		case "bool":
			_ = ad.Set(a.Name, a.Val == "true")
		default:
			e, err := classad.ParseExpr(a.Val)
			if err != nil {
				return nil, fmt.Errorf("generator produced unparsable expr %q: %v", a.Val, err)
			}
			ad.InsertExpr(a.Name, e)
		}
	}
	return ad, nil
}

type rendered struct {
	Names, Texts      []string
	MyType, TargetTyp string
}

func render(ad *classad.ClassAd) (rendered, error) {
	var r rendered
	for _, n := range ad.GetAttributes() {
		e, ok := ad.Lookup(n)
		if !ok {
			return r, fmt.Errorf("Lookup(%q) of a name returned by GetAttributes failed", n)
		}
		r.Names = append(r.Names, n)
		r.Texts = append(r.Texts, e.String())
	}
	// the serialiser evaluates the two type names on the ad without its private attributes
	pub := ad.Redacted()
	if s, ok := pub.EvaluateAttrString("MyType"); ok {
		r.MyType = s
	}
	if s, ok := pub.EvaluateAttrString("TargetType"); ok {
		r.TargetTyp = s
	}
	return r, nil
}

type runResult struct {
	Frames []tframe
	Wire   []byte
	Rend   rendered
	Got    *classad.ClassAd // peer reconstruction (GetClassAd), nil on error
	GotErr error
	Raw    string
	RawErr error
	GotMax *classad.ClassAd // GetClassAdWithMaxSize with a generous budget
	MaxErr error
	SkipErr error // SkipClassAdRaw
	SendErr error // (sequences) the serialiser itself refused
}

func runScenario(sc scenario) (*runResult, error) {
	ad, err := buildAd(sc.Attrs)
	if err != nil {
		return nil, err
	}
	rend, err := render(ad)
	if err != nil {
		return nil, err
	}
	conn := &memConn{}
	s, err := newStream(conn, sc.Key, sc.Enc)
	if err != nil {
		return nil, err
	}
	rs := &recStream{s: s, conn: conn}
	m := message.NewMessageForStream(rs)
	if err := m.PutClassAdWithOptions(ctx, ad, sc.config()); err != nil {
		return nil, fmt.Errorf("PutClassAdWithOptions: %v", err)
	}
	if err := m.FinishMessage(ctx); err != nil {
		return nil, fmt.Errorf("FinishMessage: %v", err)
	}
	res := &runResult{Frames: rs.frames, Wire: append([]byte(nil), conn.wr.Bytes()...), Rend: rend}
	// the peer: a fresh real stream in the same state over the recorded bytes
	func() {
		defer func() {
			if r := recover(); r != nil {
				res.GotErr = fmt.Errorf("panic: %v", r)
			}
		}()
		pc := &memConn{rd: bytes.NewReader(res.Wire)}
		ps, err := newStream(pc, sc.Key, sc.Enc)
		if err != nil {
			res.GotErr = err
			return
		}
		res.Got, res.GotErr = message.NewMessageFromStream(ps).GetClassAd(ctx)
	}()
	func() {
		defer func() {
			if r := recover(); r != nil {
				res.RawErr = fmt.Errorf("panic: %v", r)
			}
		}()
		pc := &memConn{rd: bytes.NewReader(res.Wire)}
		ps, err := newStream(pc, sc.Key, sc.Enc)
		if err != nil {
			res.RawErr = err
			return
		}
		res.Raw, res.RawErr = message.NewMessageFromStream(ps).GetClassAdRaw(ctx)
	}()
	func() {
		defer func() {
			if r := recover(); r != nil {
				res.MaxErr = fmt.Errorf("panic: %v", r)
			}
		}()
		pc := &memConn{rd: bytes.NewReader(res.Wire)}
		ps, err := newStream(pc, sc.Key, sc.Enc)
		if err != nil {
			res.MaxErr = err
			return
		}
		res.GotMax, res.MaxErr = message.NewMessageFromStream(ps).GetClassAdWithMaxSize(ctx, 1<<26)
	}()
	func() {
		defer func() {
			if r := recover(); r != nil {
				res.SkipErr = fmt.Errorf("panic: %v", r)
			}
		}()
		pc := &memConn{rd: bytes.NewReader(res.Wire)}
		ps, err := newStream(pc, sc.Key, sc.Enc)
		if err != nil {
			res.SkipErr = err
			return
		}
		rm := message.NewMessageFromStream(ps)
		if err := rm.SkipClassAdRaw(ctx); err != nil {
			res.SkipErr = err
			return
		}
		// nothing of the ad may be left: the message must be at its end
		if rest, err := rm.GetRemainingBytes(ctx); err != nil || len(rest) != 0 {
			res.SkipErr = fmt.Errorf("after SkipClassAdRaw %d bytes of the message are left (%v)", len(rest), err)
		}
	}()
	return res, nil
}

// what the statement says must / must not be delivered
func versionAtLeast(p []int, a, b, c int) bool {
	if p[0] != a {
		return p[0] > a
	}
	if p[1] != b {
		return p[1] > b
	}
	return p[2] >= c
}
func inList(n string, l []string) bool {
	for _, x := range l {
		if x == n {
			return true
		}
	}
	return false
}

// mustWithhold: the statement forbids this attribute on the wire.
func mustWithhold(sc scenario, name string) bool {
	optIn := sc.Opts&32 != 0 && sc.Opts&2 == 0
	if specPrivate(name) && !optIn {
		return true
	}
	if specV2(name) && sc.Peer != nil && !versionAtLeast(sc.Peer, 9, 9, 0) {
		return true
	}
	return false
}

// mustDeliver: a public attribute (by any reading) that passes the whitelist must arrive.
func mustDeliver(sc scenario, name string) bool {
	if len(sc.WL) > 0 && !inList(name, sc.WL) {
		return false
	}
	if inList(name, sc.EncA) {
		return false // treated like a private attribute by the code; not part of the statement
	}
	if classad.IsPrivateAttribute(name) && !specPrivate(name) {
		return false // Unicode look-alike the library also treats as private: allowed either way
	}
	if specPrivate(name) {
		optIn := sc.Opts&32 != 0 && sc.Opts&2 == 0
		if !optIn {
			return false
		}
		if specV2(name) && sc.Peer != nil && !versionAtLeast(sc.Peer, 9, 9, 0) {
			return false
		}
	}
	return true
}

func containsFold(hay []byte, needle string) bool {
	return bytes.Contains([]byte(asciiLower(string(hay))), []byte(asciiLower(needle)))
}

// oracle runs the direct property checks on one executed scenario.
func oracle(sc scenario, res *runResult) (key, msg string) {
	k, m := secrecy(sc, res)
	if k != "" && k != "name-in-public-expression" {
		return k, m
	}
	if k2, m2 := reassembly(sc, res); k2 != "" {
		return k2, m2
	}
	return k, m
}

// isIdent: a byte of an attribute name as the old-ClassAd wire line writes it
func isIdent(b byte) bool {
	return b == '_' || b == '.' || b >= '0' && b <= '9' || b >= 'a' && b <= 'z' || b >= 'A' && b <= 'Z' || b >= 0x80
}

// withheldLine looks, in the PLAINTEXT of every frame written (sealed or not), for a serialised
// attribute line "NAME = ..." whose NAME the statement says must be withheld under this scenario's
// options and peer - whether or not the generator put such an attribute into the ad, and however
// the code came to select it (whitelist, expansion, ...).  " = " with a blank on either side only
// occurs as the name/value separator: every ClassAd operator containing '=' is rendered as
// "==", "=?=", "=!=", "<=", ">=", "!=".
func withheldLine(sc scenario, frames []tframe) (name string, found bool) {
	for _, f := range frames {
		d := f.Data
		for i := 0; i+3 <= len(d); i++ {
			if d[i] != ' ' || d[i+1] != '=' || d[i+2] != ' ' {
				continue
			}
			j := i
			for j > 0 && isIdent(d[j-1]) {
				j--
			}
			if j == i {
				continue
			}
			if n := string(d[j:i]); mustWithhold(sc, n) {
				return n, true
			}
		}
	}
	return "", false
}

// publicTextCover marks the bytes of the (lower-cased) connection bytes that are the rendered
// EXPRESSION TEXT - the part after "name = " - of an attribute the ad really has and the statement
// lets through.  Only a private NAME lying wholly inside such a text is the known finding
// name-in-public-expression; a name anywhere else (an attribute name, a value, a type name) is not.
func publicTextCover(sc scenario, res *runResult, lw []byte) []bool {
	cov := make([]bool, len(lw))
	for i, n := range res.Rend.Names {
		if mustWithhold(sc, n) {
			continue
		}
		head := []byte(asciiLower(n + " = "))
		pat := append(append([]byte(nil), head...), []byte(asciiLower(res.Rend.Texts[i]))...)
		if len(pat) == len(head) {
			continue
		}
		for from := 0; ; {
			k := bytes.Index(lw[from:], pat)
			if k < 0 {
				break
			}
			k += from
			for x := k + len(head); x < k+len(pat); x++ {
				cov[x] = true
			}
			from = k + 1
		}
	}
	return cov
}

// secrecy: the canary part of the oracle (what may not be on the wire)
func secrecy(sc scenario, res *runResult) (key, msg string) {
	clearWire := res.Wire // every byte that reached the connection
	nameInPublic := ""
	defer func() {
		if key == "" && nameInPublic != "" {
			key, msg = "name-in-public-expression", nameInPublic
		}
	}()
	// hard clause, structural: no serialised attribute line carries a name that must be withheld
	if n, bad := withheldLine(sc, res.Frames); bad {
		return "private-attr-line", fmt.Sprintf("an attribute line \"%s = ...\" was serialised although the statement withholds that name (options %d, whitelist %v, peer %v)", n, sc.Opts, sc.WL, sc.Peer)
	}
	lw := []byte(asciiLower(string(clearWire)))
	var cover []bool
	for _, a := range sc.Attrs {
		canary := a.Val
		if a.Kind == "expr" || a.Kind == "bool" || len(canary) < 8 {
			canary = ""
		}
		if a.Kind == "expr" {
			// a private attribute given as an expression: its string literals of 8+ bytes are canaries too
			if q := exprCanary(a.Val); q != "" && specPrivate(a.Name) {
				canary = q
			}
		}
		if mustWithhold(sc, a.Name) {
			// the hard clause first: the VALUE occurs in no byte written, sealed or not
			if canary != "" && bytes.Contains(clearWire, []byte(canary)) {
				return "value-on-wire", fmt.Sprintf("value of withheld private attribute %q occurs in the emitted bytes", a.Name)
			}
			for _, f := range res.Frames { // also inside sealed frames: not serialised at all
				if canary != "" && bytes.Contains(f.Data, []byte(canary)) {
					return "value-serialised", fmt.Sprintf("value of withheld private attribute %q was serialised (inside a frame)", a.Name)
				}
			}
			if res.Got != nil {
				if _, ok := res.Got.Lookup(a.Name); ok {
					return "withheld-received", fmt.Sprintf("peer received withheld private attribute %q", a.Name)
				}
			}
			ln := []byte(asciiLower(a.Name))
			for from := 0; ; {
				k := bytes.Index(lw[from:], ln)
				if k < 0 {
					break
				}
				k += from
				if cover == nil {
					cover = publicTextCover(sc, res, lw)
				}
				for x := k; x < k+len(ln); x++ {
					if !cover[x] {
						return "name-on-wire", fmt.Sprintf("name of withheld private attribute %q occurs in the emitted bytes (offset %d), outside the expression text of any public attribute of the ad", a.Name, k)
					}
				}
				nameInPublic = fmt.Sprintf("the name of withheld private attribute %q occurs in the emitted bytes, inside the rendered expression of a public attribute that refers to it", a.Name)
				from = k + 1
			}
			continue
		}
		if specPrivate(a.Name) && sc.Key && !sc.Enc {
			// sent, on a keyed stream that is not encrypting: only inside sealed frames
			if canary != "" && bytes.Contains(clearWire, []byte(canary)) {
				return "secret-in-clear", fmt.Sprintf("value of private attribute %q is readable on a keyed, non-encrypting stream", a.Name)
			}
			for _, f := range res.Frames {
				if !f.Sealed && canary != "" && bytes.Contains(f.Data, []byte(canary)) {
					return "secret-in-clear-frame", fmt.Sprintf("value of private attribute %q written in a clear frame", a.Name)
				}
			}
			if res.SendErr == nil && (len(sc.WL) == 0 || inList(a.Name, sc.WL)) && !bytes.Contains(clearWire, []byte(message.SecretMarker)) {
				return "no-marker", "private attribute sent on a keyed non-encrypting stream without the secret marker"
			}
		}
		if sc.Key && sc.Enc && canary != "" && bytes.Contains(clearWire, []byte(canary)) {
			return "clear-on-encrypted", fmt.Sprintf("value of %q readable on an encrypting stream", a.Name)
		}
	}
	return "", ""
}

// exprCanary: the first string literal of at least 8 bytes in an expression text
func exprCanary(e string) string {
	for i := 0; i < len(e); i++ {
		if e[i] != '"' {
			continue
		}
		j := strings.IndexByte(e[i+1:], '"')
		if j < 0 {
			return ""
		}
		if j >= 8 && !strings.ContainsAny(e[i+1:i+1+j], "\\") {
			return e[i+1 : i+1+j]
		}
		i += j + 1
	}
	return ""
}

// reassembly: what the peer must reconstruct
func reassembly(sc scenario, res *runResult) (key, msg string) {
	// peer reconstruction (GetClassAd expects the two type names: not applicable with PutClassAdNoTypes)
	if sc.Opts&1 != 0 && sc.Enc {
		return "", "" // length-prefixed strings: GetClassAd cannot tell the missing type names from a short message
	}
	if res.GotErr != nil {
		return "peer-error", fmt.Sprintf("peer GetClassAd failed: %v", res.GotErr)
	}
	if res.RawErr != nil {
		return "peer-raw-error", fmt.Sprintf("peer GetClassAdRaw failed: %v", res.RawErr)
	}
	if res.MaxErr != nil {
		return "peer-maxsize-error", fmt.Sprintf("peer GetClassAdWithMaxSize (64 MiB budget) failed: %v", res.MaxErr)
	}
	if res.GotMax == nil || res.GotMax.StringWithPrivate() != res.Got.StringWithPrivate() {
		return "peer-maxsize-differs", "peer GetClassAdWithMaxSize reassembled a different ad than GetClassAd"
	}
	if res.SkipErr != nil {
		return "peer-skip-error", fmt.Sprintf("peer SkipClassAdRaw: %v", res.SkipErr)
	}
	src, _ := buildAd(sc.Attrs)
	for _, a := range sc.Attrs {
		if !mustDeliver(sc, a.Name) {
			continue
		}
		if strings.EqualFold(a.Name, "MyType") || strings.EqualFold(a.Name, "TargetType") {
			continue
		}
		want := src.EvaluateAttr(a.Name)
		got := res.Got.EvaluateAttr(a.Name)
		if _, ok := res.Got.Lookup(a.Name); !ok {
			return "not-delivered", fmt.Sprintf("attribute %q was not reconstructed by the peer", a.Name)
		}
		if a.Kind != "expr" && (want.Type() != got.Type() || want.String() != got.String()) {
			return "value-changed", fmt.Sprintf("attribute %q reconstructed as %s, sent %s", a.Name, got.String(), want.String())
		}
	}
	return "", ""
}

// ---------------------------------------------------------------------------
// sequences: several ads through ONE Message with crypto-mode changes in between, and streams
// rebuilt from an exported crypto state (send counter at / near its maximum)

type seqStep struct {
	Pre   string     `json:"pre"` // "", "setkey", "crypto-on", "crypto-off", "newmsg", or several joined by "+"
	Opts  int        `json:"opts"`
	Attrs []attrSpec `json:"attrs"`
}
type seqScenario struct {
	Kind  string    `json:"kind"` // "seq"
	Init  string    `json:"init"` // "plain", "keyed-enc", "keyed-clear", "blob"
	Ectr  uint32    `json:"ectr"` // blob: send counter
	Steps []seqStep `json:"steps"`
}

// cryptoBlob renders the documented layout of Stream.ExportCryptoState
func cryptoBlob(ectr, dctr uint32) []byte {
	var b bytes.Buffer
	b.WriteString(stream.VerifCryptoStateMagic)
	_ = binary.Write(&b, binary.BigEndian, uint16(stream.VerifCryptoStateVersion))
	b.WriteByte(1<<0 | 1<<1 | 1<<2 | 1<<3 | 1<<4 | 1<<5)
	b.Write(sessionKey)
	b.Write(bytes.Repeat([]byte{0x01}, 16))
	b.Write(bytes.Repeat([]byte{0x02}, 16))
	_ = binary.Write(&b, binary.BigEndian, ectr)
	_ = binary.Write(&b, binary.BigEndian, dctr)
	for _, f := range [][]byte{make([]byte, 32), make([]byte, 32), nil} {
		_ = binary.Write(&b, binary.BigEndian, uint16(len(f)))
		b.Write(f)
	}
	return b.Bytes()
}

// seqTrace: what the model is compared with (every frame written by the history, the ads as rendered)
type seqTrace struct {
	Frames   []tframe
	Rends    []rendered
	Complete bool // every step was sent
}

func runSeq(q seqScenario) (key, msg string, stats map[string]int) {
	key, msg, stats, _ = runSeqTrace(q)
	return
}

// runSeqTrace executes the sequence on the real code and applies the oracle to every ad
func runSeqTrace(q seqScenario) (key, msg string, stats map[string]int, tr *seqTrace) {
	stats = map[string]int{}
	tr = &seqTrace{}
	conn := &memConn{}
	var s *stream.Stream
	hasKey, enc := false, false
	switch q.Init {
	case "blob":
		var err error
		s, err = stream.NewStreamWithCryptoState(conn, cryptoBlob(q.Ectr, 5))
		if err != nil {
			return "blob-rejected", fmt.Sprintf("NewStreamWithCryptoState: %v", err), stats, tr
		}
		s.SetCryptoMode(false)
		hasKey, enc = true, false
	case "keyed-enc":
		s, _ = newStream(conn, true, true)
		hasKey, enc = true, true
	case "keyed-clear":
		s, _ = newStream(conn, true, false)
		hasKey, enc = true, false
	default:
		s, _ = newStream(conn, false, false)
	}
	rs := &recStream{s: s, conn: conn}
	m := message.NewMessageForStream(rs)
	// the peer mirrors the state changes (not for blob streams: secrecy only)
	type sent struct {
		sc  scenario
		ok  bool
		end int
	}
	var sents []sent
	firstK, firstM := "", ""
	for _, st := range q.Steps {
		for _, pre := range strings.Split(st.Pre, "+") {
			switch pre {
			case "setkey":
				if err := s.SetSymmetricKey(sessionKey); err != nil {
					return "setkey", err.Error(), stats, tr
				}
				hasKey, enc = true, true
			case "crypto-on":
				if s.SetCryptoMode(true) {
					enc = true
				}
			case "crypto-off":
				s.SetCryptoMode(false)
				enc = false
			case "newmsg":
				m = message.NewMessageForStream(rs)
			}
		}
		ad, err := buildAd(st.Attrs)
		if err != nil {
			return "gen", err.Error(), stats, tr
		}
		if rd, rerr := render(ad); rerr == nil {
			tr.Rends = append(tr.Rends, rd)
		} else {
			return "gen", rerr.Error(), stats, tr
		}
		before := conn.wr.Len()
		f0 := len(rs.frames)
		sc := scenario{Key: hasKey, Enc: enc, Opts: st.Opts, Attrs: st.Attrs}
		var perr error
		func() {
			defer func() {
				if r := recover(); r != nil {
					perr = fmt.Errorf("panic: %v", r)
				}
			}()
			perr = m.PutClassAdWithOptions(ctx, ad, sc.config())
			if perr == nil {
				perr = m.FinishMessage(ctx)
			}
		}()
		res := &runResult{Frames: rs.frames[f0:], Wire: append([]byte(nil), conn.wr.Bytes()[before:]...), SendErr: perr}
		if perr != nil {
			stats["seq-send-refused"]++
		} else {
			stats["seq-ad-sent"]++
		}
		if hasKey && !enc {
			stats["seq-ad-keyed-not-encrypting"]++
		}
		if k, mm := secrecy(sc, res); k != "" && firstK == "" {
			// remembered, the history is still run to its end so that the model sees all of it
			firstK, firstM = k, fmt.Sprintf("ad %d of a sequence (stream key=%v enc=%v at that point, options=%d, send error: %v): %s", len(sents), hasKey, enc, st.Opts, perr, mm)
		}
		sents = append(sents, sent{sc, perr == nil, conn.wr.Len()})
		tr.Frames = rs.frames
		tr.Complete = perr == nil && len(sents) == len(q.Steps)
		if perr != nil {
			break // the message is in an undefined state after a refused send
		}
	}
	if firstK != "" {
		return firstK, firstM, stats, tr
	}
	if q.Init == "blob" {
		return "", "", stats, tr
	}
	// peer: one receiving stream over everything that was written, same state changes
	pc := &memConn{rd: bytes.NewReader(conn.wr.Bytes())}
	var ps *stream.Stream
	switch q.Init {
	case "keyed-enc":
		ps, _ = newStream(pc, true, true)
	case "keyed-clear":
		ps, _ = newStream(pc, true, false)
	default:
		ps, _ = newStream(pc, false, false)
	}
	for i, st := range q.Steps {
		if i >= len(sents) || !sents[i].ok {
			break
		}
		for _, pre := range strings.Split(st.Pre, "+") {
			switch pre {
			case "setkey":
				_ = ps.SetSymmetricKey(sessionKey)
			case "crypto-on":
				ps.SetCryptoMode(true)
			case "crypto-off":
				ps.SetCryptoMode(false)
			}
		}
		var got *classad.ClassAd
		var gerr error
		func() {
			defer func() {
				if r := recover(); r != nil {
					gerr = fmt.Errorf("panic: %v", r)
				}
			}()
			got, gerr = message.NewMessageFromStream(ps).GetClassAd(ctx)
		}()
		sc := sents[i].sc
		if sc.Opts&1 != 0 {
			break
		}
		if gerr != nil {
			return "seq-peer-error", fmt.Sprintf("ad %d of a sequence: peer GetClassAd failed: %v", i, gerr), stats, tr
		}
		src, _ := buildAd(sc.Attrs)
		for _, a := range sc.Attrs {
			_, ok := got.Lookup(a.Name)
			if mustWithhold(sc, a.Name) && ok {
				return "withheld-received", fmt.Sprintf("ad %d of a sequence: peer received withheld %q", i, a.Name), stats, tr
			}
			if mustDeliver(sc, a.Name) && !ok {
				return "not-delivered", fmt.Sprintf("ad %d of a sequence: attribute %q not reconstructed", i, a.Name), stats, tr
			}
			if ok && mustDeliver(sc, a.Name) && a.Kind != "expr" && !strings.EqualFold(a.Name, "MyType") && !strings.EqualFold(a.Name, "TargetType") {
				if w, g := src.EvaluateAttr(a.Name), got.EvaluateAttr(a.Name); w.Type() != g.Type() || w.String() != g.String() {
					return "value-changed", fmt.Sprintf("ad %d of a sequence: %q reconstructed as %s, sent %s", i, a.Name, g.String(), w.String()), stats, tr
				}
			}
		}
	}
	return "", "", stats, tr
}

// ---------------------------------------------------------------------------
// Coq terms

// bs prints a byte string; long runs of one byte become (rep n b)
func bs(s string) string {
	if len(s) < 200 {
		return core.Hex([]byte(s))
	}
	var parts []string
	i := 0
	lit := 0
	for i < len(s) {
		j := i
		for j < len(s) && s[j] == s[i] {
			j++
		}
		if j-i >= 64 {
			if lit < i {
				parts = append(parts, chunks(s[lit:i])...)
			}
			parts = append(parts, fmt.Sprintf("rep %d %s", j-i, core.Hex([]byte{s[i]})))
			lit = j
		}
		i = j
	}
	if lit < len(s) {
		parts = append(parts, chunks(s[lit:])...)
	}
	return "(" + strings.Join(parts, " ++ ") + ")%list"
}
func chunks(s string) []string {
	var out []string
	for len(s) > 1000 {
		out = append(out, core.Hex([]byte(s[:1000])))
		s = s[1000:]
	}
	return append(out, core.Hex([]byte(s)))
}
func bsList(l []string) string {
	var xs []string
	for _, s := range l {
		xs = append(xs, bs(s))
	}
	return core.List(xs)
}
func peerTerm(p []int) string {
	if p == nil {
		return "None"
	}
	return fmt.Sprintf("(Some (%d, %d, %d)%%Z)", p[0], p[1], p[2])
}
func framesTerm(fs []tframe) string {
	var xs []string
	for _, f := range fs {
		xs = append(xs, fmt.Sprintf("(%s, %s, %s)", core.Bool(f.Sealed), core.Bool(f.EOM), core.Hex(f.Data)))
	}
	return core.List(xs)
}

// split GetClassAdRaw's text back into expression strings and the two type names
func splitRaw(raw string, n int) (exprs []string, my, tg string, ok bool) {
	lines := strings.Split(raw, "\n")
	if len(lines) > 0 && lines[len(lines)-1] == "" {
		lines = lines[:len(lines)-1]
	}
	if len(lines) < n {
		return nil, "", "", false
	}
	exprs = lines[:n]
	for _, l := range lines[n:] {
		switch {
		case strings.HasPrefix(l, "MyType = "):
			my, _ = strconv.Unquote(strings.TrimPrefix(l, "MyType = "))
		case strings.HasPrefix(l, "TargetType = "):
			tg, _ = strconv.Unquote(strings.TrimPrefix(l, "TargetType = "))
		default:
			return nil, "", "", false
		}
	}
	return exprs, my, tg, true
}

// ---------------------------------------------------------------------------
// name catalogue

func variants(n string) []string {
	alt := []byte(n)
	for i := range alt {
		if i%2 == 0 {
			alt[i] = byte(unicode.ToUpper(rune(alt[i])))
		} else {
			alt[i] = byte(unicode.ToLower(rune(alt[i])))
		}
	}
	out := []string{n, strings.ToLower(n), strings.ToUpper(n), string(alt)}
	// Unicode fold look-alikes
	for _, rep := range [][2]string{{"i", "İ"}, {"I", "İ"}, {"k", "K"}, {"K", "K"}, {"s", "ſ"}, {"S", "ſ"}, {"i", "ı"}} {
		if strings.Contains(n, rep[0]) {
			out = append(out, strings.Replace(n, rep[0], rep[1], 1))
		}
	}
	return out
}

func catalogue() []string {
	seen := map[string]bool{}
	var out []string
	add := func(s string) {
		if !seen[s] {
			seen[s] = true
			out = append(out, s)
		}
	}
	for _, f := range fixedPrivate {
		for _, v := range variants(f) {
			add(v)
		}
		add(f + "x")
		add("x" + f)
		add(f[:len(f)-1])
		add(" " + f)
	}
	for _, p := range []string{"_condor_priv", "_condor_privX", "_condor_private_key", "_Condor_Priv_Thing"} {
		for _, v := range variants(p) {
			add(v)
		}
	}
	for _, s := range []string{"_condor_pri", "condor_priv", "_condor-priv", "_condor_pri\xff", "__condor_priv", "_condor_prıv", "_condor_prİv",
		"Name", "MyType", "TargetType", "Cpus", "Memory", "Requirements", "Rank", "Owner", "JobStatus", "", "\xff", "\xc4", "\xe2\x84", "K", "K", "c",
		"Cla\xc4\xb0mId", "claimid\xc4", "\xc4\xb0", "ClaimId\x00x"} {
		add(s)
	}
	return out
}

// names usable in a ClassAd sent over the wire (no '=', NUL, blanks; distinct when lower-cased)
func wireNames() (priv, pub []string) {
	priv = []string{"ClaimId", "claimid", "CLAIMIDS", "Capability", "cApAbIlItY", "ChildClaimIds", "ClaimIdList", "TransferKey", "transferKEY",
		"_condor_privFoo", "_CONDOR_PRIV_BAR", "_Condor_Priv", "_condor_private_data"}
	pub = []string{"Name", "Cpus", "Memory", "Requirements", "Owner", "Rank", "JobUniverse", "Machine_", "Arch", "OpSys", "MyType", "TargetType"}
	return
}

// ---------------------------------------------------------------------------

func gen(c *core.Ctx) error {
	c.Rule("(1) classad.IsPrivateAttributeV1/V2 on a catalogue of names (every fixed name and the prefix in lower/upper/alternating case and Unicode-fold look-alikes, near misses, invalid UTF-8, public names) against the model predicates; (2) the real filters (hook) for all 4 (excludePrivate, excludePrivateV2) x whitelist x EncryptedAttrs over the whole catalogue, and the full decision through PutClassAdWithOptions on a mock stream for all 64 option-bit sets x whitelist absent/empty/public-only/naming-private x peer nil/8.9.13/9.8.9/9.9.0/9.10.0/10.0.0; (3) the real serialiser on a real stream.Stream over an in-memory connection in the stream states no-key / keyed+encrypting / keyed-not-encrypting / flag-without-key: frames written (plaintext, sealed or clear as seen on the connection) against the model, canary search over every byte that reached the connection, peer reconstruction with GetClassAd and GetClassAdRaw; (3c) projections: ads in which a whitelisted PUBLIC attribute's expression refers to a private attribute (stored spelling and other case spellings, reserved prefix, chains A->B->private, list literals, random templates) x whitelists naming those attributes x all 64 option sets incl. NoExpandWhitelist (filter hook, mock stream) and the bit combinations of NoPrivate/NoExpandWhitelist/IncludePrivate on real streams in all four states: only what the whitelist names and the privacy filter lets through is serialised; (4) histories through one Message (key installed / mode switched after the Message was created, between ads, fresh Messages) on the oracle and, frame by frame, on the sequence model. non-trivial = serialiser scenario in which the peer reconstructed the ad; distinct by scenario")
	c.Assume("a sealed frame is AES-256-GCM ciphertext: its plaintext is not derivable from the bytes on the connection (ideal encryption, Lib/Sym.v)")
	c.Assume("MyType/TargetType are sent as evaluated by the classad library; an ad whose MyType expression refers to a private attribute declassifies it (not generated)")

	// 0. Unicode facts the model relies on
	c.OracleCheck()
	for r := rune(0x80); r <= unicode.MaxRune; r++ {
		if l := unicode.ToLower(r); l < 0x80 && r != 0x130 && r != 0x212a {
			c.OracleFail("unicode-facts", fmt.Sprintf("unicode.ToLower(%U) is ASCII: the model of strings.ToLower is incomplete", r), map[string]interface{}{"kind": "unicode"})
		}
	}
	for _, ch := range privPrefix {
		for f := unicode.SimpleFold(ch); f != ch; f = unicode.SimpleFold(f) {
			if f >= 0x80 {
				c.OracleFail("unicode-facts", fmt.Sprintf("%q has the non-ASCII simple fold %U", ch, f), map[string]interface{}{"kind": "unicode"})
			}
		}
	}

	// 1. predicates on the catalogue
	cat := catalogue()
	for _, n := range cat {
		v1, v2 := classad.IsPrivateAttributeV1(n), classad.IsPrivateAttributeV2(n)
		c.AddCase(fmt.Sprintf("CPriv %s %s %s", bs(n), core.Bool(v1), core.Bool(v2)), map[string]interface{}{"kind": "priv", "name": []byte(n)})
		c.OracleCheck()
		if specV1(n) && !v1 || specV2(n) && !v2 {
			c.OracleFail("not-case-insensitive", fmt.Sprintf("name %q is private by case-insensitive matching but the library says V1=%v V2=%v", n, v1, v2), map[string]interface{}{"kind": "priv", "name": []byte(n)})
		}
		if message.ClassAdAttributeIsPrivateAny(n) != (v1 || v2) || message.ClassAdAttributeIsPrivateV1(n) != v1 || message.ClassAdAttributeIsPrivateV2(n) != v2 {
			c.OracleFail("wrapper-differs", fmt.Sprintf("cedar's ClassAdAttributeIsPrivate* differ from the library on %q", n), map[string]interface{}{"kind": "wrapper", "name": []byte(n)})
		}
		c.Count(fmt.Sprintf("name-v1=%v-v2=%v", v1, v2))
	}

	// 2a. filters through the hook, all (exP, exV2)
	tbl := [][]string{nil, {"Name", "Cpus", "Owner"}, {"Name", "ClaimId", "claimid", "_condor_privX", "CAPABILITY", "Cpus", "_CONDOR_PRIV"}, {"Cpus", "Name"}}
	tblTerm := func() string {
		var xs []string
		for _, l := range tbl {
			xs = append(xs, bsList(l))
		}
		return core.List(xs)
	}()
	idxOf := func(names []string) map[string]int {
		m := map[string]int{}
		for i, n := range names {
			m[n] = i
		}
		return m
	}
	idxList := func(m map[string]int, kept []string) string {
		var xs []string
		for _, k := range kept {
			i, ok := m[k]
			if !ok {
				i = 99999
			}
			xs = append(xs, core.Nat(i))
		}
		return core.List(xs)
	}
	dummy := classad.New()
	for _, n := range cat {
		_ = dummy.Set(n, 1)
	}
	{
		var runs []string
		cm := idxOf(cat)
		for _, exP := range []bool{false, true} {
			for _, exV2 := range []bool{false, true} {
				for _, wi := range []int{0, 1, 2} {
					for _, ei := range []int{0, 3} {
						var kept []string
						if wi == 0 {
							kept = message.VerifFilterAttributesByPrivacy(cat, exP, exV2, tbl[ei])
						} else {
							kept = message.VerifFilterAttributesByWhitelist(cat, dummy, tbl[wi], exP, exV2, tbl[ei], 0)
						}
						runs = append(runs, fmt.Sprintf("(%s, %s, %s, %s, %s)", core.Bool(exP), core.Bool(exV2), core.Opt(wi != 0, core.Nat(wi)), core.Nat(ei), idxList(cm, kept)))
						c.OracleCheck()
						for _, k := range kept {
							if exP && specPrivate(k) || exV2 && specV2(k) {
								c.OracleFail("filter-keeps-private", fmt.Sprintf("filter(excludePrivate=%v, excludePrivateV2=%v) kept %q", exP, exV2, k),
									map[string]interface{}{"kind": "filter-hook", "exP": exP, "exV2": exV2, "wl": tbl[wi], "enc_attrs": tbl[ei], "name": []byte(k)})
							}
						}
						c.Count("filter-raw")
					}
				}
			}
		}
		c.AddCaseW(fmt.Sprintf("CFilterRaw %s %s %s", bsList(cat), tblTerm, core.List(runs)), map[string]interface{}{"kind": "filter-raw"}, 100)
	}

	// 2b. the whole decision through PutClassAdWithOptions on a mock stream
	peers := [][]int{nil, {0, 0, 0}, {0, 9, 9}, {0, 99, 99}, {8, 9, 13}, {9, 8, 9}, {9, 8, 99}, {9, 9, 0}, {9, 9, 1}, {9, 10, 0}, {10, 0, 0}, {-1, 99, 99}}
	var sendable []string // catalogue names that survive the wire format
	low := map[string]bool{}
	for _, n := range cat {
		if n == "" || strings.ContainsAny(n, "= \x00") || low[strings.ToLower(n)] || n != strings.TrimSpace(n) {
			continue
		}
		low[strings.ToLower(n)] = true
		sendable = append(sendable, n)
	}
	for opts := 0; opts < 64; opts++ {
		relevant := opts&^(2|32) == 0 // the other four bits do not reach the filter
		names := sendable
		if !relevant {
			names = nil
			m := map[string]bool{}
			for j := 0; j < 12; j++ {
				n := sendable[(opts*5+j*7)%len(sendable)]
				if !m[strings.ToLower(n)] {
					m[strings.ToLower(n)] = true
					names = append(names, n)
				}
			}
		}
		ad := classad.New()
		for _, n := range names {
			_ = ad.Set(n, 7)
		}
		names = ad.GetAttributes()
		nm := idxOf(names)
		var runs []string
		var descs []interface{}
		for _, wi := range []int{0, 0, 1, 2} {
			for _, peer := range peers {
				for _, ei := range []int{0, 3} {
					if !relevant && ei == 3 {
						continue
					}
					sc := scenario{Opts: opts, WL: tbl[wi], EncA: tbl[ei], Peer: peer}
					if wi == 0 && len(runs)%2 == 1 {
						sc.WL = []string{} // empty, non-nil whitelist
					}
					st := &mock.Stream{}
					m := message.NewMessageForStream(st)
					if err := m.PutClassAdWithOptions(ctx, ad, sc.config()); err != nil {
						return err
					}
					if err := m.FinishMessage(ctx); err != nil {
						return err
					}
					var all []byte
					for _, f := range st.Out {
						all = append(all, f.Data...)
					}
					cnt := int(int64(binary.BigEndian.Uint64(all[:8])))
					parts := bytes.Split(all[8:], []byte{0})
					var kept []string
					for i := 0; i < cnt; i++ {
						e := string(parts[i])
						if e == "ServerTime = 1699200000" && opts&4 != 0 && i == 0 {
							continue
						}
						kept = append(kept, strings.TrimSuffix(e, " = 7"))
					}
					desc := map[string]interface{}{"kind": "filter", "opts": opts, "wl": sc.WL, "peer": peer, "enc_attrs": sc.EncA, "names": toBytes(names)}
					descs = append(descs, desc)
					runs = append(runs, fmt.Sprintf("(%d, %s, %s, %s, %s)", opts, core.Nat(wi), core.Nat(ei), peerTerm(peer), idxList(nm, kept)))
					c.OracleCheck()
					for _, k := range kept {
						if mustWithhold(sc, k) {
							c.OracleFail("private-serialised", fmt.Sprintf("options=%d whitelist=%v peer=%v: private attribute %q was serialised", opts, sc.WL, peer, k), desc)
						}
					}
					for _, n := range names {
						if mustDeliver(sc, n) && !inList(n, kept) {
							c.OracleFail("public-dropped", fmt.Sprintf("options=%d whitelist=%v peer=%v: attribute %q was not serialised", opts, sc.WL, peer, n), desc)
						}
					}
					c.Count(fmt.Sprintf("decision-optin=%v", opts&32 != 0 && opts&2 == 0))
				}
			}
		}
		c.Evaluated(len(runs) - 1)
		c.AddCaseW(fmt.Sprintf("CFilter %s %s %s", bsList(names), tblTerm, core.List(runs)), map[string]interface{}{"kind": "group", "runs": descs}, 10+len(names)/2)
	}

	// 3. real streams
	priv, pub := wireNames()
	states := [][2]bool{{false, false}, {true, true}, {true, false}, {false, true}}
	optSets := []int{0, 32, 34, 36, 33, 63}
	nAds := 3
	if !c.Quick() {
		nAds = 6
		optSets = nil
		for o := 0; o < 64; o++ {
			if o&(8|16) == 0 || o == 63 || o == 8 || o == 16|32 { // NonBlocking / NoExpandWhitelist never reach the serialiser's decisions
				optSets = append(optSets, o)
			}
		}
	}
	canaryN := 0
	mkAd := func(k int) []attrSpec {
		var as []attrSpec
		np := 1 + c.Rng.Intn(4)
		nq := 1 + c.Rng.Intn(4)
		if k == 0 { // the fixed reference ad: every private spelling once
			np, nq = len(priv), 4
		}
		usedLow := map[string]bool{}
		order := map[string][]string{}
		for _, pool := range [][]string{priv, pub} {
			p := append([]string(nil), pool...)
			if k != 0 {
				c.Rng.Shuffle(len(p), func(i, j int) { p[i], p[j] = p[j], p[i] })
			}
			order[pool[0]] = p
		}
		pick := func(pool []string, i int) string {
			for _, n := range order[pool[0]] {
				if !usedLow[strings.ToLower(n)] {
					usedLow[strings.ToLower(n)] = true
					return n
				}
			}
			return ""
		}
		for i := 0; i < np; i++ {
			n := pick(priv, i)
			if n == "" {
				continue
			}
			canaryN++
			switch c.Rng.Intn(5) {
			case 0:
				as = append(as, attrSpec{n, "int", fmt.Sprintf("9%09d%d", c.Rng.Intn(1000000000), canaryN%10)})
			case 1:
				as = append(as, attrSpec{n, "expr", fmt.Sprintf(`strcat("kanarienvogel%d.", "x")`, canaryN)})
			default:
				as = append(as, attrSpec{n, "str", fmt.Sprintf("<10.0.0.%d:9618>#%d#kanarie-%08x", canaryN%250, canaryN, c.Rng.Uint32())})
			}
		}
		for i := 0; i < nq; i++ {
			n := pick(pub, i)
			if n == "" {
				continue
			}
			switch {
			case n == "MyType" || n == "TargetType":
				as = append(as, attrSpec{n, "str", []string{"Machine", "Job", "Scheduler"}[c.Rng.Intn(3)]})
			case n == "Requirements" || n == "Rank":
				as = append(as, attrSpec{n, "expr", []string{"(Cpus >= 1) && (Memory > 1024)", "TARGET.Memory * 2", "true", "ifThenElse(Cpus > 2, 1.5, 0)"}[c.Rng.Intn(4)]})
			case n == "Cpus" || n == "Memory" || n == "JobUniverse":
				as = append(as, attrSpec{n, "int", fmt.Sprint(c.Rng.Intn(100000))})
			default:
				as = append(as, attrSpec{n, "str", fmt.Sprintf("public value %d \"quoted\" \\ end", c.Rng.Intn(1000))})
			}
		}
		c.Rng.Shuffle(len(as), func(i, j int) { as[i], as[j] = as[j], as[i] })
		return as
	}
	tbl3 := [][]string{nil, {"Name", "Cpus", "Owner", "MyType"}, {"Name", "ClaimId", "claimid", "_condor_privFoo", "Capability", "Cpus", "_CONDOR_PRIV_BAR", "TransferKey"}, {"Owner", "Cpus"}}
	peers3 := [][]int{nil, {9, 8, 9}, {9, 9, 0}, {0, 0, 0}, {10, 0, 0}, {0, 9, 9}}
	if c.Quick() {
		peers3 = peers3[:4]
	}
	nsc := 0
	for k := 0; k < nAds; k++ {
		attrs := mkAd(k)
		g := &group{tbl: tbl3}
		for _, stt := range states {
			for _, opts := range optSets {
				for wi := 0; wi < 3; wi++ {
					for pi, peer := range peers3 {
						if c.Quick() && k > 0 && (wi+pi+opts)%3 != k%3 {
							continue
						}
						ei := 0
						if (opts+wi+pi+k)%5 == 0 {
							ei = 3
						}
						sc := scenario{Key: stt[0], Enc: stt[1], Opts: opts, WL: tbl3[wi], EncA: tbl3[ei], Peer: peer, Attrs: attrs}
						if err := g.add(c, sc, wi, ei); err != nil {
							return err
						}
						nsc++
					}
				}
			}
		}
		g.flush(c)
	}
	// large secrets and large public values: multi-frame messages around the 16 KiB target
	for _, stt := range states {
		for _, n := range []int{16360, 16384, 20000, 40000} {
			big := strings.Repeat("k", n)
			sc := scenario{Key: stt[0], Enc: stt[1], Opts: 32, Attrs: []attrSpec{
				{"Name", "str", "slot1@host"}, {"ClaimId", "str", "kanarie-big-" + big}, {"Owner", "str", strings.Repeat("p", n/2)}, {"transferkey", "str", "kanarie-small-0001"}, {"MyType", "str", "Machine"}}}
			g := &group{tbl: tbl3}
			if err := g.add(c, sc, 0, 0); err != nil {
				return err
			}
			g.flush(c)
		}
	}
	// type names and public expressions that REFER to private attributes: the evaluated type names
	// must not carry the secret; every stream state, with and without the opt-in
	refAds := [][]attrSpec{
		{{"Name", "str", "slot1@host"}, {"ClaimId", "str", "kanarie-typeref-000001"}, {"MyType", "expr", "ClaimId"}, {"Cpus", "int", "4"}},
		{{"Name", "str", "slot2@host"}, {"_condor_privTok", "str", "kanarie-typeref-000002"}, {"transferkey", "str", "kanarie-typeref-000003"},
			{"MyType", "expr", `strcat("M-", _condor_privTok)`}, {"TargetType", "expr", `toUpper(TransferKey)`}},
		{{"Name", "str", "slot3@host"}, {"Capability", "str", "kanarie-typeref-000004"}, {"MyType", "str", "Machine"}, {"TargetType", "expr", `ifThenElse(Capability =?= "x", "Job", Capability)`}},
	}
	for _, attrs := range refAds {
		g := &group{tbl: tbl3}
		for _, stt := range states {
			for _, opts := range []int{0, 32, 34, 4, 36} {
				if err := g.add(c, scenario{Key: stt[0], Enc: stt[1], Opts: opts, Attrs: attrs}, 0, 0); err != nil {
					return err
				}
				c.Count("type-name-refers-to-private")
			}
		}
		g.flush(c)
	}
	// 3c. whitelists naming public attributes whose expressions refer to private ones (refs.go)
	if err := genRefs(c, states); err != nil {
		return err
	}
	// 4. sequences through one Message, and streams rebuilt from exported crypto state
	secretAd := func(i int) []attrSpec {
		return []attrSpec{{"Name", "str", fmt.Sprintf("slot%d@host", i)}, {[]string{"ClaimId", "_condor_privK", "transferkey", "Capability"}[i%4], "str", fmt.Sprintf("kanarie-seq-%04d-%08x", i, c.Rng.Uint32())},
			{"Cpus", "int", fmt.Sprint(1 + i)}, {"MyType", "str", "Machine"}}
	}
	publicAd := func(i int) []attrSpec {
		return []attrSpec{{"Name", "str", fmt.Sprintf("pub%d", i)}, {"Memory", "int", fmt.Sprint(1024 * (i + 1))}}
	}
	var seqs []seqScenario
	for _, ctr := range []uint32{0, 1, 7, 0x7fffffff, 0xfffffffd, 0xfffffffe, 0xffffffff} {
		for _, opts := range []int{32, 0, 34, 36} {
			seqs = append(seqs, seqScenario{Kind: "seq", Init: "blob", Ectr: ctr, Steps: []seqStep{{"", opts, secretAd(int(ctr % 97))}}})
		}
		seqs = append(seqs, seqScenario{Kind: "seq", Init: "blob", Ectr: ctr, Steps: []seqStep{{"", 32, secretAd(1)}, {"", 32, secretAd(2)}, {"", 32, secretAd(3)}}})
	}
	for _, n := range []int{1048560, 1048576, 1200000, 2300000} {
		seqs = append(seqs, seqScenario{Kind: "seq", Init: "keyed-clear", Steps: []seqStep{{"", 32, []attrSpec{{"Name", "str", "big"}, {"ClaimId", "str", "kanarie-big-secret-" + strings.Repeat("s", n)}, {"Cpus", "int", "1"}}}}})
	}
	pres := []string{"", "setkey", "crypto-on", "crypto-off", "newmsg", "setkey+crypto-off", "crypto-off+newmsg", "newmsg+crypto-off", "crypto-on+crypto-off", "crypto-off+crypto-on"}
	for _, init := range []string{"plain", "keyed-enc", "keyed-clear"} {
		// the Message exists BEFORE the key is installed / before the mode changes, and only then the
		// first ad with a secret is written through it (runSeq allocates the Message on the initial stream)
		for _, opts := range []int{32, 36, 0, 34} {
			seqs = append(seqs,
				seqScenario{Kind: "seq", Init: init, Steps: []seqStep{{"setkey+crypto-off", opts, secretAd(30 + opts)}}},
				seqScenario{Kind: "seq", Init: init, Steps: []seqStep{{"crypto-off", opts, secretAd(31 + opts)}, {"", opts, secretAd(32 + opts)}}},
				seqScenario{Kind: "seq", Init: init, Steps: []seqStep{{"setkey+crypto-off+crypto-on+crypto-off", opts, secretAd(33 + opts)}, {"setkey", opts, secretAd(34 + opts)}, {"crypto-off", opts, secretAd(35 + opts)}}})
		}
		seqs = append(seqs,
			seqScenario{Kind: "seq", Init: init, Steps: []seqStep{{"setkey", 32, secretAd(40)}, {"crypto-off+newmsg", 32, secretAd(41)}, {"crypto-on+newmsg+crypto-off", 32, secretAd(42)}}},
			seqScenario{Kind: "seq", Init: init, Steps: []seqStep{{"crypto-on", 32, secretAd(43)}, {"setkey+crypto-off", 32, secretAd(44)}, {"crypto-on", 32, secretAd(45)}, {"crypto-off", 32, secretAd(46)}}})
		// the shapes named by the property: settle the state after the first ad
		seqs = append(seqs,
			seqScenario{Kind: "seq", Init: init, Steps: []seqStep{{"", 32, secretAd(10)}, {"crypto-off", 32, secretAd(11)}, {"crypto-on", 32, secretAd(12)}, {"crypto-off", 0, secretAd(13)}}},
			seqScenario{Kind: "seq", Init: init, Steps: []seqStep{{"", 0, publicAd(1)}, {"setkey", 32, secretAd(14)}, {"crypto-off", 32, secretAd(15)}, {"crypto-off", 32, secretAd(16)}}},
			seqScenario{Kind: "seq", Init: init, Steps: []seqStep{{"", 32, publicAd(2)}, {"crypto-off", 32, secretAd(17)}}},
			seqScenario{Kind: "seq", Init: init, Steps: []seqStep{{"crypto-off", 32, secretAd(18)}, {"crypto-on", 32, secretAd(19)}, {"newmsg", 32, secretAd(20)}, {"crypto-off", 32, secretAd(21)}}})
		nr := 12
		if !c.Quick() {
			nr = 120
		}
		for k := 0; k < nr; k++ {
			var steps []seqStep
			for j := 0; j < 2+c.Rng.Intn(4); j++ {
				as := secretAd(100 + k*7 + j)
				if c.Rng.Intn(4) == 0 {
					as = publicAd(k + j)
				}
				steps = append(steps, seqStep{pres[c.Rng.Intn(len(pres))], []int{32, 32, 0, 34, 36}[c.Rng.Intn(5)], as})
			}
			seqs = append(seqs, seqScenario{Kind: "seq", Init: init, Steps: steps})
		}
	}
	for _, q := range seqs {
		c.OracleCheck()
		k, mm, st, tr := runSeqTrace(q)
		for n, v := range st {
			c.CountN(n, v)
		}
		// the same history on the model (Model/PrivacySeq.v): every frame written, in order
		if q.Init != "blob" && tr != nil && tr.Complete && len(tr.Rends) == len(q.Steps) && seqSmall(q) {
			c.AddCaseW(seqTerm(q, tr), q, 5+len(tr.Frames))
			c.Count("seq-on-model")
		}
		if k != "" {
			c.OracleFail(k, mm, q)
		} else {
			js, _ := json.Marshal(q)
			c.Nontrivial(string(js))
		}
		c.Evaluated(1)
		c.Count("seq-" + q.Init)
	}
	c.Sample(map[string]interface{}{"serialiser_scenarios": nsc, "catalogue_names": len(cat)})
	c.Exhaustive(false)
	return nil
}

// seqSmall: histories whose ads fit a Coq literal (the 1 MiB secrets stay oracle-only)
func seqSmall(q seqScenario) bool {
	for _, st := range q.Steps {
		for _, a := range st.Attrs {
			if len(a.Val) > 4000 {
				return false
			}
		}
	}
	return true
}

// seqTerm: CSeq key enc ops frames
func seqTerm(q seqScenario, tr *seqTrace) string {
	key, enc := false, false
	switch q.Init {
	case "keyed-enc":
		key, enc = true, true
	case "keyed-clear":
		key = true
	}
	var ops []string
	for i, st := range q.Steps {
		for _, pre := range strings.Split(st.Pre, "+") {
			switch pre {
			case "setkey":
				ops = append(ops, "OSetKey")
			case "crypto-on":
				ops = append(ops, "OCryptoOn")
			case "crypto-off":
				ops = append(ops, "OCryptoOff")
			case "newmsg":
				ops = append(ops, "ONewMsg")
			}
		}
		rd := tr.Rends[i]
		var at []string
		for j := range rd.Names {
			at = append(at, core.Pair(bs(rd.Names[j]), bs(rd.Texts[j])))
		}
		ops = append(ops, fmt.Sprintf("OPutAd (mkcfg %d [] [] None) (mkad %s %s %s)", st.Opts, core.List(at), bs(rd.MyType), bs(rd.TargetTyp)))
	}
	var fr []string
	for _, f := range tr.Frames {
		fr = append(fr, fmt.Sprintf("(%s, %s, %s)", core.Bool(f.Sealed), core.Bool(f.EOM), dig(f.Data)))
	}
	return fmt.Sprintf("CSeq %s %s %s %s", core.Bool(key), core.Bool(enc), core.List(ops), core.List(fr))
}

func toBytes(l []string) [][]byte {
	var out [][]byte
	for _, s := range l {
		out = append(out, []byte(s))
	}
	return out
}

func dig(b []byte) string {
	var sum uint64
	for _, x := range b {
		sum += uint64(x)
	}
	first, last := b, b
	if len(first) > 8 {
		first = first[:8]
	}
	if len(last) > 8 {
		last = last[len(last)-8:]
	}
	return fmt.Sprintf("(%d, %d, %s, %s)", len(b), sum%4294967296, core.Hex(first), core.Hex(last))
}

var knownReported int // reports of the listed finding name-in-public-expression so far

// group collects the runs of one ad into cases of at most 40 runs
type group struct {
	tbl    [][]string
	rend   *rendered
	runs   []string
	descs  []interface{}
	weight int
}

func (g *group) flush(c *core.Ctx) {
	if len(g.runs) == 0 {
		return
	}
	var at, tb []string
	for i := range g.rend.Names {
		at = append(at, core.Pair(bs(g.rend.Names[i]), bs(g.rend.Texts[i])))
	}
	for _, l := range g.tbl {
		tb = append(tb, bsList(l))
	}
	c.Evaluated(len(g.runs) - 1)
	c.AddCaseW(fmt.Sprintf("CAd %s %s %s %s %s", core.List(at), bs(g.rend.MyType), bs(g.rend.TargetTyp), core.List(tb), core.List(g.runs)),
		map[string]interface{}{"kind": "group", "runs": g.descs}, 30+g.weight)
	g.runs, g.descs, g.weight = nil, nil, 0
}

func (g *group) add(c *core.Ctx, sc scenario, wi, ei int) error {
	res, err := runScenario(sc)
	if err != nil {
		return err
	}
	g.rend = &res.Rend
	var fr []string
	for _, f := range res.Frames {
		fr = append(fr, fmt.Sprintf("(%s, %s, %s)", core.Bool(f.Sealed), core.Bool(f.EOM), dig(f.Data)))
		g.weight += len(f.Data) / 1500
	}
	// what GetClassAdRaw made of it
	obs := "None"
	if res.RawErr == nil && len(res.Frames) > 0 && len(res.Frames[0].Data) >= 8 {
		cnt := int(int64(binary.BigEndian.Uint64(res.Frames[0].Data[:8])))
		es, my, tg, ok := splitRaw(res.Raw, cnt)
		if !ok {
			es, my, tg = []string{"<unparsable GetClassAdRaw text>"}, "", ""
		}
		var xs []string
		for _, e := range es {
			found := -1
			for i := range res.Rend.Names {
				if e == res.Rend.Names[i]+" = "+res.Rend.Texts[i] {
					found = i
				}
			}
			if found >= 0 {
				xs = append(xs, "(inl "+core.Nat(found)+")")
			} else {
				xs = append(xs, "(inr "+bs(e)+")")
			}
		}
		obs = fmt.Sprintf("(Some (%s, %s, %s))", core.List(xs), bs(my), bs(tg))
	}
	g.runs = append(g.runs, fmt.Sprintf("{| r_key := %s; r_enc := %s; r_opts := %d; r_wl := %s; r_ea := %s; r_peer := %s; r_frames := %s; r_recv := %s |}",
		core.Bool(sc.Key), core.Bool(sc.Enc), sc.Opts, core.Nat(wi), core.Nat(ei), peerTerm(sc.Peer), core.List(fr), obs))
	g.descs = append(g.descs, sc)
	c.OracleCheck()
	k, msg := oracle(sc, res)
	if k == "name-in-public-expression" {
		// the listed finding: core keeps at most 200 failure records per run, so only the first few
		// are reported with their input (the rest are counted) - they must never crowd out a real one
		c.Count("known-finding-name-in-public-expression")
		if knownReported >= 30 {
			k = ""
		} else {
			knownReported++
		}
	}
	if k != "" {
		c.OracleFail(k, fmt.Sprintf("state key=%v enc=%v options=%d whitelist=%v peer=%v: %s", sc.Key, sc.Enc, sc.Opts, sc.WL, sc.Peer, msg), sc)
	} else {
		js, _ := json.Marshal(sc)
		c.Nontrivial(string(js))
	}
	nSealed := 0
	for _, f := range res.Frames {
		if f.Sealed {
			nSealed++
		}
	}
	st := "nokey"
	switch {
	case sc.Key && sc.Enc:
		st = "keyed-encrypting"
	case sc.Key:
		st = "keyed-not-encrypting"
	case sc.Enc:
		st = "flag-without-key"
	}
	c.Count("state-" + st)
	if sc.Key && !sc.Enc {
		c.Count(fmt.Sprintf("marker-path-sealed-frames=%d", min(nSealed, 3)))
	}
	if len(res.Frames) > 1 {
		c.Count("multi-frame")
	}
	if sc.Key && !sc.Enc && nSealed > 0 && len(sc.Attrs) < 8 {
		c.Sample(map[string]interface{}{"scenario": sc, "frames": len(res.Frames), "sealed": nSealed, "wire_bytes": len(res.Wire)})
	}
	if len(g.runs) >= 40 {
		g.flush(c)
	}
	return nil
}

func replay(raw json.RawMessage) error {
	var probe struct {
		Kind string `json:"kind"`
	}
	if json.Unmarshal(raw, &probe) == nil && probe.Kind == "seq" {
		var q seqScenario
		if err := json.Unmarshal(raw, &q); err != nil {
			return err
		}
		if k, mm, _ := runSeq(q); k != "" {
			return fmt.Errorf("%s: %s", k, mm)
		}
		return nil
	}
	if probe.Kind == "filter-ref" || probe.Kind == "filter-hook-ref" {
		var d struct {
			Attrs []attrSpec `json:"attrs"`
			WL    []string   `json:"wl"`
			Opts  int        `json:"opts"`
			Peer  []int      `json:"peer"`
			ExP   bool       `json:"exP"`
			ExV2  bool       `json:"exV2"`
		}
		if err := json.Unmarshal(raw, &d); err != nil {
			return err
		}
		return replayRef(probe.Kind, d.Attrs, d.WL, d.Opts, d.Peer, d.ExP, d.ExV2)
	}
	var sc scenario
	if err := json.Unmarshal(raw, &sc); err != nil {
		return err
	}
	if sc.Attrs == nil {
		var d struct {
			Kind  string   `json:"kind"`
			Name  []byte   `json:"name"`
			Opts  int      `json:"opts"`
			WL    []string `json:"wl"`
			Peer  []int    `json:"peer"`
			EncA  []string `json:"enc_attrs"`
			Names [][]byte `json:"names"`
			ExP   bool     `json:"exP"`
			ExV2  bool     `json:"exV2"`
		}
		if err := json.Unmarshal(raw, &d); err != nil {
			return err
		}
		switch d.Kind {
		case "group":
			var g struct {
				Runs []json.RawMessage `json:"runs"`
			}
			if err := json.Unmarshal(raw, &g); err != nil {
				return err
			}
			for _, r := range g.Runs {
				if err := replay(r); err != nil {
					return err
				}
			}
			return nil
		case "filter-raw":
			return nil
		case "filter-hook":
			n := string(d.Name)
			var kept []string
			if len(d.WL) == 0 {
				kept = message.VerifFilterAttributesByPrivacy([]string{n}, d.ExP, d.ExV2, d.EncA)
			} else {
				ad := classad.New()
				_ = ad.Set(n, 1)
				kept = message.VerifFilterAttributesByWhitelist([]string{n}, ad, d.WL, d.ExP, d.ExV2, d.EncA, 0)
			}
			if len(kept) > 0 && (d.ExP && specPrivate(n) || d.ExV2 && specV2(n)) {
				return fmt.Errorf("filter(excludePrivate=%v, excludePrivateV2=%v) kept %q", d.ExP, d.ExV2, n)
			}
			return nil
		case "wrapper":
			n := string(d.Name)
			if message.ClassAdAttributeIsPrivateAny(n) != classad.IsPrivateAttribute(n) || message.ClassAdAttributeIsPrivateV1(n) != classad.IsPrivateAttributeV1(n) || message.ClassAdAttributeIsPrivateV2(n) != classad.IsPrivateAttributeV2(n) {
				return fmt.Errorf("cedar's ClassAdAttributeIsPrivate* differ from the library on %q", n)
			}
			return nil
		case "unicode":
			return fmt.Errorf("the Unicode tables of this Go toolchain contradict the model's case-mapping facts")
		case "priv":
			n := string(d.Name)
			if specV1(n) && !classad.IsPrivateAttributeV1(n) || specV2(n) && !classad.IsPrivateAttributeV2(n) {
				return fmt.Errorf("%q is private by case-insensitive matching but not for the library", n)
			}
			return nil
		case "filter":
			ad := classad.New()
			for _, n := range d.Names {
				_ = ad.Set(string(n), 7)
			}
			st := &mock.Stream{}
			m := message.NewMessageForStream(st)
			sc := scenario{Opts: d.Opts, WL: d.WL, EncA: d.EncA, Peer: d.Peer}
			if err := m.PutClassAdWithOptions(ctx, ad, sc.config()); err != nil {
				return err
			}
			_ = m.FinishMessage(ctx)
			var all []byte
			for _, f := range st.Out {
				all = append(all, f.Data...)
			}
			for _, n := range d.Names {
				has := bytes.Contains(all, []byte(string(n)+" = 7\x00"))
				if has && mustWithhold(sc, string(n)) {
					return fmt.Errorf("private attribute %q was serialised", n)
				}
				if !has && mustDeliver(sc, string(n)) {
					return fmt.Errorf("attribute %q was not serialised", n)
				}
			}
			return nil
		}
		return fmt.Errorf("unknown replay record")
	}
	res, err := runScenario(sc)
	if err != nil {
		return err
	}
	if k, msg := oracle(sc, res); k != "" {
		return fmt.Errorf("%s: %s", k, msg)
	}
	return nil
}

var _ = sort.Strings

func main() { core.Main("C09", gen, replay) }
