// refs.go — projections (whitelists) of ads in which a PUBLIC, whitelisted attribute's EXPRESSION
// refers to a private attribute: by the spelling stored in the ad, by other case spellings, through
// a chain of public attributes, for fixed names and reserved-prefix names; every option-bit set
// (PutClassAdNoExpandWhitelist included), every stream state, peers on both sides of the cut-off.
// The projection must stay what the caller named (minus what the privacy filter drops): whatever a
// projected expression mentions is NOT drawn in.
package main

import (
	"bytes"
	"encoding/binary"
	"fmt"
	"strings"

	"verifharness/core"
	"verifharness/mock"

	"github.com/PelicanPlatform/classad/classad"
	"github.com/bbockelm/cedar/message"
)

type refAd struct {
	Attrs []attrSpec
	WLs   [][]string
	V2    bool // refers to a reserved-prefix name: all peer versions matter
}

func spell(rng interface{ Intn(int) int }, s string, mode int) string {
	switch mode {
	case 1:
		return strings.ToLower(s)
	case 2:
		return strings.ToUpper(s)
	case 3:
		b := []byte(s)
		for i := range b {
			if rng.Intn(2) == 0 {
				b[i] = byte(strings.ToUpper(string(b[i]))[0])
			} else {
				b[i] = byte(strings.ToLower(string(b[i]))[0])
			}
		}
		return string(b)
	}
	return s
}

func fixedRefAds() []refAd {
	return []refAd{
		// the plain shape: ClaimRef = ClaimId
		{Attrs: []attrSpec{{"Name", "str", "slot1@host"}, {"Cpus", "int", "4"}, {"ClaimId", "str", "<10.0.0.1:9618>#1700000000#1#kanarie-ref-0001"},
			{"ClaimRef", "expr", "ClaimId"}, {"MyType", "str", "Machine"}},
			WLs: [][]string{{"Name", "ClaimRef"}, {"ClaimRef"}, {"Name", "ClaimRef", "ClaimId"}, {"Cpus"}}},
		// other case spellings of the reference than the one stored in the ad
		{Attrs: []attrSpec{{"Name", "str", "slot2@host"}, {"ClaimId", "str", "kanarie-ref-0002-claim"}, {"RefUp", "expr", "CLAIMID"},
			{"RefLow", "expr", `strcat("id:", claimid)`}, {"RefAlt", "expr", `cLaImId =?= "x"`}, {"MyType", "str", "Machine"}},
			WLs: [][]string{{"RefUp"}, {"RefLow", "RefAlt", "Name"}, {"RefUp", "claimid", "CLAIMID"}}},
		// reserved prefix
		{Attrs: []attrSpec{{"Name", "str", "slot3@host"}, {"_condor_privTok", "str", "kanarie-ref-0003-token"}, {"TokRef", "expr", "_condor_privTok"},
			{"TokRefUp", "expr", "_CONDOR_PRIVTOK"}, {"TokLen", "expr", "size(_condor_privtok) + 1"}, {"MyType", "str", "Machine"}},
			WLs: [][]string{{"TokRef"}, {"TokRefUp", "TokLen", "Name"}, {"TokRef", "_condor_privTok"}}, V2: true},
		// a chain of public attributes ending in a private one
		{Attrs: []attrSpec{{"Name", "str", "slot4@host"}, {"Capability", "str", "kanarie-ref-0004-capability"}, {"Chain2", "expr", `strcat(Capability, "-x")`},
			{"Chain1", "expr", "Chain2"}, {"Chain0", "expr", "Chain1"}, {"MyType", "str", "Job"}},
			WLs: [][]string{{"Chain0"}, {"Chain0", "Chain1"}, {"Chain1", "Chain2"}, {"Chain0", "Chain1", "Chain2", "Name"}}},
		// Rank / Requirements referring to several private attributes
		{Attrs: []attrSpec{{"Name", "str", "slot5@host"}, {"Cpus", "int", "8"}, {"Memory", "int", "4096"}, {"TransferKey", "str", "kanarie-ref-0005-transferkey"},
			{"ChildClaimIds", "str", "kanarie-ref-0006-childclaims"}, {"Rank", "expr", `ifThenElse(TransferKey =?= "k", 1, 0) + Cpus`},
			{"Requirements", "expr", `(ChildClaimIds =!= undefined) && (Memory > 1)`}, {"MyType", "str", "Machine"}},
			WLs: [][]string{{"Rank", "Requirements"}, {"Rank", "Cpus"}, {"Requirements", "Memory", "TransferKey"}}},
		// list literal over two private attributes, one of them an expression; fixed and prefixed names mixed
		{Attrs: []attrSpec{{"Name", "str", "slot6@host"}, {"ClaimIds", "expr", `strcat("kanarie-ref-0007-claimids.", "x")`}, {"ClaimIdList", "str", "kanarie-ref-0008-claimidlist"},
			{"_CONDOR_PRIV_BAR", "str", "kanarie-ref-0009-privbar"}, {"ListRef", "expr", "{ClaimIdList, CLAIMIDS, _condor_priv_bar}"}, {"MyType", "str", "Machine"}},
			WLs: [][]string{{"ListRef"}, {"ListRef", "Name", "_CONDOR_PRIV_BAR"}}, V2: true},
	}
}

func randomRefAd(c *core.Ctx, k int) refAd {
	priv, _ := wireNames()
	templ := []string{"%s", `strcat("v-", %s)`, `%s =?= "x"`, "ifThenElse(isUndefined(%s), 0, 1)", "size(%s) + Cpus", "{%s, 1}", "(%s)"}
	r := refAd{Attrs: []attrSpec{{"Name", "str", fmt.Sprintf("rnd%d@host", k)}, {"Cpus", "int", fmt.Sprint(1 + c.Rng.Intn(64))}, {"MyType", "str", "Machine"}}}
	used := map[string]bool{}
	var privs, refs []string
	for i := 0; i < 1+c.Rng.Intn(2); i++ {
		n := priv[c.Rng.Intn(len(priv))]
		if used[strings.ToLower(n)] {
			continue
		}
		clash := false
		for o := range used { // "claimid" lies inside "claimids": keep the name canaries of one ad apart
			if strings.Contains(o, strings.ToLower(n)) || strings.Contains(strings.ToLower(n), o) {
				clash = true
			}
		}
		if clash {
			continue
		}
		used[strings.ToLower(n)] = true
		privs = append(privs, n)
		if specV2(n) {
			r.V2 = true
		}
		r.Attrs = append(r.Attrs, attrSpec{n, "str", fmt.Sprintf("kanarie-rnd-%d-%d-%08x", k, i, c.Rng.Uint32())})
	}
	for i := 0; i < 2+c.Rng.Intn(2); i++ {
		n := fmt.Sprintf("Ref%c", 'A'+i)
		p := privs[c.Rng.Intn(len(privs))]
		refs = append(refs, n)
		r.Attrs = append(r.Attrs, attrSpec{n, "expr", fmt.Sprintf(templ[c.Rng.Intn(len(templ))], spell(c.Rng, p, c.Rng.Intn(4)))})
	}
	c.Rng.Shuffle(len(r.Attrs), func(i, j int) { r.Attrs[i], r.Attrs[j] = r.Attrs[j], r.Attrs[i] })
	r.WLs = [][]string{refs, {refs[0], "Name"}, append(append([]string{}, refs...), privs...)}
	return r
}

// keptByMock serialises through a mock stream and returns the attribute names on the wire
func keptByMock(ad *classad.ClassAd, sc scenario) ([]string, error) {
	st := &mock.Stream{}
	m := message.NewMessageForStream(st)
	if err := m.PutClassAdWithOptions(ctx, ad, sc.config()); err != nil {
		return nil, err
	}
	if err := m.FinishMessage(ctx); err != nil {
		return nil, err
	}
	var all []byte
	for _, f := range st.Out {
		all = append(all, f.Data...)
	}
	cnt := int(int64(binary.BigEndian.Uint64(all[:8])))
	parts := bytes.Split(all[8:], []byte{0})
	var kept []string
	for i := 0; i < cnt && i < len(parts); i++ {
		e := string(parts[i])
		if e == "ServerTime = 1699200000" && sc.Opts&4 != 0 && i == 0 {
			continue
		}
		n, _, _ := strings.Cut(e, " = ")
		kept = append(kept, n)
	}
	return kept, nil
}

// projectionOracle: written from the statement and the documented meaning of a whitelist
func projectionOracle(sc scenario, names, kept []string) (key, msg string) {
	for _, k := range kept {
		if mustWithhold(sc, k) {
			return "private-serialised", fmt.Sprintf("options=%d whitelist=%v peer=%v: private attribute %q was serialised", sc.Opts, sc.WL, sc.Peer, k)
		}
		if len(sc.WL) > 0 && !inList(k, sc.WL) {
			return "not-on-whitelist", fmt.Sprintf("options=%d whitelist=%v peer=%v: attribute %q was serialised although the whitelist does not name it", sc.Opts, sc.WL, sc.Peer, k)
		}
	}
	for _, n := range names {
		if mustDeliver(sc, n) && !inList(n, kept) {
			return "public-dropped", fmt.Sprintf("options=%d whitelist=%v peer=%v: attribute %q was not serialised", sc.Opts, sc.WL, sc.Peer, n)
		}
	}
	return "", ""
}

func natList(m map[string]int, kept []string) string {
	var xs []string
	for _, k := range kept {
		i, ok := m[k]
		if !ok {
			i = 99999
		}
		xs = append(xs, core.Nat(i))
	}
	return core.List(xs)
}

func genRefs(c *core.Ctx, states [][2]bool) error {
	ads := fixedRefAds()
	nRand := 2
	if !c.Quick() {
		nRand = 10
	}
	for k := 0; k < nRand; k++ {
		ads = append(ads, randomRefAd(c, k))
	}
	allPeers := [][]int{nil, {0, 0, 0}, {0, 9, 9}, {8, 9, 13}, {9, 8, 9}, {9, 8, 99}, {9, 9, 0}, {9, 9, 1}, {10, 0, 0}, {-1, 99, 99}}
	fewPeers := [][]int{nil, {9, 8, 9}, {9, 9, 0}}
	for k, ra := range ads {
		ad, err := buildAd(ra.Attrs)
		if err != nil {
			return err
		}
		names := ad.GetAttributes()
		nm := map[string]int{}
		for i, n := range names {
			nm[n] = i
		}
		tbl := append([][]string{nil}, ra.WLs...)
		var tb []string
		for _, l := range tbl {
			tb = append(tb, bsList(l))
		}
		tblTerm := core.List(tb)
		peers := fewPeers
		if ra.V2 {
			peers = allPeers
		}

		// (i) the filter itself (hook), with and without NoExpandWhitelist, all (exP, exV2)
		var rawRuns []string
		for _, exP := range []bool{false, true} {
			for _, exV2 := range []bool{false, true} {
				for wi := 1; wi < len(tbl); wi++ {
					for _, o := range []message.PutClassAdOptions{0, message.PutClassAdNoExpandWhitelist} {
						kept := message.VerifFilterAttributesByWhitelist(names, ad, tbl[wi], exP, exV2, nil, o)
						rawRuns = append(rawRuns, fmt.Sprintf("(%s, %s, %s, %s, %s)", core.Bool(exP), core.Bool(exV2), core.Opt(true, core.Nat(wi)), core.Nat(0), natList(nm, kept)))
						c.OracleCheck()
						desc := map[string]interface{}{"kind": "filter-hook-ref", "attrs": ra.Attrs, "wl": tbl[wi], "exP": exP, "exV2": exV2, "opts": int(o)}
						for _, kn := range kept {
							if exP && specPrivate(kn) || exV2 && specV2(kn) {
								c.OracleFail("filter-keeps-private", fmt.Sprintf("whitelist filter(excludePrivate=%v, excludePrivateV2=%v, options=%d, whitelist=%v) kept %q", exP, exV2, o, tbl[wi], kn), desc)
							}
							if !inList(kn, tbl[wi]) {
								c.OracleFail("not-on-whitelist", fmt.Sprintf("whitelist filter(options=%d, whitelist=%v) kept %q, which the whitelist does not name", o, tbl[wi], kn), desc)
							}
						}
						c.Count("ref-filter-raw")
					}
				}
			}
		}
		c.Evaluated(len(rawRuns) - 1)
		c.AddCaseW(fmt.Sprintf("CFilterRaw %s %s %s", bsList(names), tblTerm, core.List(rawRuns)), map[string]interface{}{"kind": "filter-raw"}, 5)

		// (ii) the whole decision through PutClassAdWithOptions on a mock stream: ALL 64 option sets
		var runs []string
		var descs []interface{}
		for opts := 0; opts < 64; opts++ {
			for wi := 0; wi < len(tbl); wi++ {
				for _, peer := range peers {
					sc := scenario{Opts: opts, WL: tbl[wi], Peer: peer, Attrs: ra.Attrs}
					kept, err := keptByMock(ad, sc)
					if err != nil {
						return err
					}
					desc := map[string]interface{}{"kind": "filter-ref", "opts": opts, "wl": sc.WL, "peer": peer, "attrs": ra.Attrs}
					descs = append(descs, desc)
					runs = append(runs, fmt.Sprintf("(%d, %s, %s, %s, %s)", opts, core.Nat(wi), core.Nat(0), peerTerm(peer), natList(nm, kept)))
					c.OracleCheck()
					if key, msg := projectionOracle(sc, names, kept); key != "" {
						c.OracleFail(key, msg, desc)
					}
					c.Count(fmt.Sprintf("ref-decision-noexpand=%v", opts&16 != 0))
				}
			}
			if opts%16 == 15 {
				c.Evaluated(len(runs) - 1)
				c.AddCaseW(fmt.Sprintf("CFilter %s %s %s", bsList(names), tblTerm, core.List(runs)), map[string]interface{}{"kind": "group", "runs": descs}, 10+len(runs)/40)
				runs, descs = nil, nil
			}
		}

		// (iii) the real serialiser on real streams, all four states
		optSets := []int{0, 16, 2, 18, 32, 48, 34, 50, 63, 47, 20, 33}
		if !c.Quick() {
			optSets = nil
			for o := 0; o < 64; o++ {
				optSets = append(optSets, o)
			}
		}
		speers := [][]int{nil}
		if ra.V2 {
			speers = [][]int{nil, {9, 8, 9}, {9, 9, 0}}
		}
		g := &group{tbl: tbl}
		for si, stt := range states {
			for oi, opts := range optSets {
				for wi := 0; wi < len(tbl); wi++ {
					for pi, peer := range speers {
						if c.Quick() && k > 0 && (si+oi+wi+pi+k)%2 != 0 {
							continue
						}
						if c.Quick() && oi >= 8 && (si+wi)%3 != 0 {
							continue
						}
						sc := scenario{Key: stt[0], Enc: stt[1], Opts: opts, WL: tbl[wi], Peer: peer, Attrs: ra.Attrs}
						if err := g.add(c, sc, wi, 0); err != nil {
							return err
						}
						c.Count("ref-serialiser-scenario")
						if wi > 0 {
							c.Count(fmt.Sprintf("ref-whitelist-noexpand=%v-optin=%v", opts&16 != 0, opts&32 != 0 && opts&2 == 0))
						}
					}
				}
			}
		}
		g.flush(c)
	}
	return nil
}

// replayRef re-runs a "filter-ref" / "filter-hook-ref" record
func replayRef(kind string, attrs []attrSpec, wl []string, opts int, peer []int, exP, exV2 bool) error {
	ad, err := buildAd(attrs)
	if err != nil {
		return err
	}
	names := ad.GetAttributes()
	if kind == "filter-hook-ref" {
		kept := message.VerifFilterAttributesByWhitelist(names, ad, wl, exP, exV2, nil, message.PutClassAdOptions(opts))
		for _, kn := range kept {
			if exP && specPrivate(kn) || exV2 && specV2(kn) {
				return fmt.Errorf("filter-keeps-private: whitelist filter kept %q", kn)
			}
			if !inList(kn, wl) {
				return fmt.Errorf("not-on-whitelist: whitelist filter kept %q, whitelist %v", kn, wl)
			}
		}
		return nil
	}
	sc := scenario{Opts: opts, WL: wl, Peer: peer, Attrs: attrs}
	kept, err := keptByMock(ad, sc)
	if err != nil {
		return err
	}
	if key, msg := projectionOracle(sc, names, kept); key != "" {
		return fmt.Errorf("%s: %s", key, msg)
	}
	return nil
}
