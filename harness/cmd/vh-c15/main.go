// vh-c15: correspondence + oracle for C15 (exported crypto state resumes the session exactly; export only when clean).
package main

import (
	"bytes"
	"context"
	"encoding/hex"
	"encoding/json"
	"fmt"
	"strings"

	"verifharness/core"
	ss "verifharness/streamsim"

	"github.com/bbockelm/cedar/stream"
)

var key = bytes.Repeat([]byte{0x77}, 32)

type desc struct {
	Case   ss.Case `json:"case"`
	Expect []int   `json:"expect"` // per step: -1 n/a, 1 export must succeed, 0 export must be refused
	Note   string  `json:"note"`
}

func phase(aSends bool, api string, msgs ...ss.Msg) ss.Step {
	st := ss.Step{Kind: "phase", ASends: aSends}
	for _, m := range msgs {
		st.SOps = append(st.SOps, m.SOps()...)
		st.ROps = append(st.ROps, ss.ROpsFor(api, len(m.Bytes()), 5+len(m.Bytes())/3)...)
	}
	return st
}
func direct(off int, parts ...int) ss.Msg {
	m := ss.Msg{Kind: "direct"}
	for i, p := range parts {
		m.Chunks = append(m.Chunks, ss.Pay(off+i, p))
	}
	return m
}

func check(d *desc, obs *ss.Obs) error {
	if obs.SetupErr != nil {
		return fmt.Errorf("setup: %v", obs.SetupErr)
	}
	seen := map[string]bool{}
	for i, st := range d.Case.Steps {
		if i >= len(obs.StepOK) {
			break
		}
		switch st.Kind {
		case "handoff":
			if i < len(d.Expect) && d.Expect[i] == 1 && !obs.StepOK[i] {
				return fmt.Errorf("step %d: export/import at a clean message boundary of an established session was refused", i)
			}
			if i < len(d.Expect) && d.Expect[i] == 0 && obs.StepOK[i] {
				return fmt.Errorf("step %d: export was allowed at an unsafe point (%s)", i, d.Note)
			}
		case "phase":
			po := obs.Phases[i]
			if po == nil {
				continue
			}
			dir := "AB"
			if !st.ASends {
				dir = "BA"
			}
			for fi, f := range po.Frames {
				if f.Enc && f.Opened == nil {
					return fmt.Errorf("step %d frame %d: reference codec cannot open a frame after the hand-off history (%v)", i, fi, f.OpenErr)
				}
				if f.Enc {
					k := dir + hex.EncodeToString(f.Opened.Nonce)
					if seen[k] {
						return fmt.Errorf("step %d frame %d: nonce reused across hand-off", i, fi)
					}
					seen[k] = true
				}
			}
			for _, e := range po.SErr {
				if e {
					return fmt.Errorf("step %d: send failed", i)
				}
			}
			for ri, r := range po.RRes {
				if !r.OK {
					if st.SoftFail && ri == len(st.ROps)-1 && (st.ROps[ri].Op == "end" || strings.Contains(r.Err, "EOF")) {
						continue // the scripted, expected refusal of EndMessageRead on an unconsumed message, or a read that ran dry at a frame boundary
					}
					return fmt.Errorf("step %d: receive op %d failed after hand-off history: %s", i, ri, r.Err)
				}
			}
			if len(po.RRes) < len(st.ROps) {
				return fmt.Errorf("step %d: receive stopped early", i)
			}
		}
	}
	return nil
}

func run(c *core.Ctx, d *desc) error {
	obs, term := ss.Exec(&d.Case)
	if c != nil && obs.SetupErr == nil {
		c.AddCase("CS ("+term+")", d)
	}
	return check(d, obs)
}

func ho(a bool) ss.Step { return ss.Step{Kind: "handoff", WhoA: a} }

// blob-level checks on the real importer: every strict prefix, wrong magic, wrong version are rejected
func rawblobTerm(flags byte, key, eiv, div []byte, ectr, dctr uint32, sdg, rdg, peer []byte) string {
	return fmt.Sprintf("{| rb_flags := %d; rb_key := %s; rb_eiv := %s; rb_div := %s; rb_ectr := %d; rb_dctr := %d; rb_sdg := %s; rb_rdg := %s; rb_peer := %s |}",
		flags, core.Hex(key), core.Hex(eiv), core.Hex(div), ectr, dctr, core.Hex(sdg), core.Hex(rdg), core.Hex(peer))
}

// importObs runs the real importer on bs and renders what it installed as an `option rawblob` term.
// importPanic records the blobs on which the real importer panicked instead of returning an error.
var importPanic []string

func importObs(bs []byte) (term string, ok bool) {
	ca, _, _, _ := ss.Pair()
	defer func() {
		if p := recover(); p != nil {
			importPanic = append(importPanic, fmt.Sprintf("NewStreamWithCryptoState panicked on a %d-byte blob (%x): %v", len(bs), bs, p))
			term, ok = "None", false
		}
	}()
	// the blob is handed over in a slice of exactly its length (no spare capacity behind it)
	bs = append(make([]byte, 0, len(bs)), bs...)
	st, err := stream.NewStreamWithCryptoState(ca, bs)
	for i := range bs { // the caller wipes its copy of the key material; the snapshot below must not change
		bs[i] = 0xEE
	}
	if err != nil {
		return "None", false
	}
	sn := st.VerifSnapshot()
	var flags byte
	set := func(b bool, v int) {
		if b {
			flags |= byte(v)
		}
	}
	set(sn.Encrypted, stream.VerifCsFlagEncrypted)
	set(sn.Authenticated, stream.VerifCsFlagAuthenticated)
	set(sn.FinishedSendAAD, stream.VerifCsFlagFinSendAAD)
	set(sn.FinishedRecvAAD, stream.VerifCsFlagFinRecvAAD)
	set(sn.SendDigestWritten, stream.VerifCsFlagSendDgWritten)
	set(sn.RecvDigestWritten, stream.VerifCsFlagRecvDgWritten)
	peer := []byte(st.GetPeerAddr())
	if string(peer) == "<127.0.0.1:2>" { // the in-memory conn's own address: the blob's peer field was empty
		peer = nil
	}
	return "(Some " + rawblobTerm(flags, sn.Key, sn.EncryptIV[:], sn.DecryptIV[:], sn.EncryptCounter, sn.DecryptCounter, sn.FinalSendDigest, sn.FinalRecvDigest, peer) + ")", true
}

// blob-level checks on the real exporter/importer: layout, every strict prefix, wrong magic, wrong version
func blobChecks(c *core.Ctx) {
	ca, cb, _, _ := ss.Pair()
	a, b := stream.NewStream(ca), stream.NewStream(cb)
	bg := context.Background()
	a.SendMessage(bg, []byte("clear")) // so that one digest is a real hash, the other the zero block
	b.ReceiveCompleteMessage(bg)
	a.SetSymmetricKey(key)
	b.SetSymmetricKey(key)
	a.SetPeerAddr("<10.1.2.3:9618?sock=x>")
	a.SendMessage(bg, []byte("x"))
	b.ReceiveCompleteMessage(bg)
	b.SendMessage(bg, []byte("y"))
	a.ReceiveCompleteMessage(bg)
	a.SetAuthenticated(true)
	blob, err := a.ExportCryptoState()
	c.OracleCheck()
	if err != nil {
		c.OracleFail("export-refused", "export of a clean established session refused: "+err.Error(), map[string]interface{}{"blob": true})
		return
	}
	// serialiser correspondence: the model's layout for these field values equals the real blob
	sn := a.VerifSnapshot()
	var flags byte
	for _, fv := range []struct {
		b bool
		v int
	}{{sn.Encrypted, stream.VerifCsFlagEncrypted}, {sn.Authenticated, stream.VerifCsFlagAuthenticated}, {sn.FinishedSendAAD, stream.VerifCsFlagFinSendAAD},
		{sn.FinishedRecvAAD, stream.VerifCsFlagFinRecvAAD}, {sn.SendDigestWritten, stream.VerifCsFlagSendDgWritten}, {sn.RecvDigestWritten, stream.VerifCsFlagRecvDgWritten}} {
		if fv.b {
			flags |= byte(fv.v)
		}
	}
	c.AddCase(fmt.Sprintf("CSer %s %s", rawblobTerm(flags, sn.Key, sn.EncryptIV[:], sn.DecryptIV[:], sn.EncryptCounter, sn.DecryptCounter, sn.FinalSendDigest, sn.FinalRecvDigest, []byte(a.GetPeerAddr())), core.Hex(blob)),
		map[string]interface{}{"blob": "ser"})
	for n := 0; n <= len(blob); n++ {
		c.OracleCheck()
		obs, ok := importObs(blob[:n])
		c.AddCase(fmt.Sprintf("CParse %s %s", core.Hex(blob[:n]), obs), map[string]interface{}{"blob": "truncate", "n": n})
		if n < len(blob) && ok {
			c.OracleFail("import-truncated", fmt.Sprintf("import accepted a blob truncated to %d of %d bytes", n, len(blob)), map[string]interface{}{"blob": true, "truncate": n})
		}
		if n == len(blob) && !ok {
			c.OracleFail("import-valid-rejected", "import rejected the blob the exporter produced", map[string]interface{}{"blob": true})
		}
	}
	c.Count("blob-truncations")
	for i := 0; i < len(blob); i++ { // single-byte corruption of every byte; magic (4) + version (2) must be rejected
		for _, x := range []byte{0x01, 0x80} {
			mut := append([]byte(nil), blob...)
			mut[i] ^= x
			obs, ok := importObs(mut)
			c.OracleCheck()
			c.AddCase(fmt.Sprintf("CParse %s %s", core.Hex(mut), obs), map[string]interface{}{"blob": "corrupt", "byte": i, "xor": x})
			if i < 6 && ok {
				c.OracleFail("import-mistagged", fmt.Sprintf("import accepted a blob with byte %d of magic/version altered", i), map[string]interface{}{"blob": true, "byte": i})
			}
		}
	}
	c.Count("blob-corruptions")
	// random byte strings and blobs with hostile length fields
	for r := 0; r < 200; r++ {
		n := c.Rng.Intn(140)
		bs := make([]byte, n)
		c.Rng.Read(bs)
		if r%2 == 0 && n >= 6 {
			copy(bs, blob[:6])
		}
		if r%4 == 0 && n > 81 {
			bs[79], bs[80] = byte(c.Rng.Intn(256)), byte(c.Rng.Intn(256))
		}
		obs, _ := importObs(bs)
		c.AddCase(fmt.Sprintf("CParse %s %s", core.Hex(bs), obs), map[string]interface{}{"blob": "random"})
	}
	c.Count("blob-random")
	// import rejects bad blobs with an ERROR: a panic on any of the blobs above is a failure of its own
	for _, msg := range importPanic {
		c.OracleFail("import-panics", msg, map[string]interface{}{"blob": true, "panic": msg})
	}
	importPanic = nil
}

func gen(c *core.Ctx) error {
	c.Rule("scripted histories on real keyed Streams: traffic (varied counts/sizes per direction), ExportCryptoState + NewStreamWithCryptoState at every message boundary (either end, chains of hand-offs), followed by more traffic both ways; export attempted at every kind of non-boundary point (before traffic in one/both directions, unsent buffered bytes, after EndMessage without StartMessage, partially consumed inbound message, encryption switched off, unkeyed stream); every truncation and magic/version corruption of a valid blob. Model compared on export acceptance, every wire frame and every receive result. non-trivial = case containing a successful hand-off followed by traffic; distinct by description")
	k := 0
	try := func(d *desc) {
		k++
		c.OracleCheck()
		if err := run(c, d); err != nil {
			c.OracleFail("handoff", err.Error(), d)
		}
		js, _ := json.Marshal(d)
		c.Nontrivial(string(js))
		if k <= 2 {
			c.Sample(d)
		}
	}
	keyed := ss.Setup{Kind: "keyed", Key: key, PreAB: []ss.Data{ss.Lit([]byte("q"))}, PreBA: []ss.Data{ss.Lit([]byte("r"))}, ReadMax: 2, Ctx: true}
	keyed0 := ss.Setup{Kind: "keyed", Key: key}
	apis := []string{"complete", "msgall", "sre"}
	// 1. hand-off at every boundary of histories with nAB, nBA messages before
	for _, su := range []ss.Setup{keyed, keyed0} {
		for nab := 1; nab <= 2; nab++ {
			for nba := 1; nba <= 2; nba++ {
				for who := 0; who < 3; who++ { // 0: A, 1: B, 2: both in a chain
					var steps []ss.Step
					var exp []int
					add := func(s ss.Step, e int) { steps = append(steps, s); exp = append(exp, e) }
					for i := 0; i < nab; i++ {
						add(phase(true, apis[(i+who)%3], direct(i, 3+i, i)), -1)
					}
					for i := 0; i < nba; i++ {
						add(phase(false, apis[(i+nab)%3], direct(i+5, 1+i)), -1)
					}
					rounds := 1
					if who == 2 || !c.Quick() {
						rounds = 2
					}
					for round := 0; round < rounds; round++ {
						switch who {
						case 0:
							add(ho(true), 1)
						case 1:
							add(ho(false), 1)
						default:
							add(ho(true), 1)
							add(ho(false), 1)
							add(ho(true), 1)
						}
						add(phase(true, "complete", direct(9, 4), direct(2, 0)), -1)
						add(phase(false, "msgall", direct(3, 2, 2)), -1)
						bp := phase(true, "sre", ss.Msg{Kind: "buffered", Chunks: []ss.Data{ss.Pay(1, 4100), ss.Pay(2, 10)}})
						bp.SOps = append(bp.SOps, ss.SOp{Op: "start"}) // StartMessage clears the pending end-of-message flag
						add(bp, -1)
					}
					try(&desc{Case: ss.Case{Setup: su, Steps: steps}, Expect: exp, Note: fmt.Sprintf("boundary hand-off nab=%d nba=%d who=%d", nab, nba, who)})
					c.Count("boundary-handoff")
				}
			}
		}
	}
	// 1b. long-lived sessions: hand-offs while a frame counter crosses 2^31 or sits near 2^32
	for _, start := range []uint32{0x7ffffffd, 0x7fffffff, 0x80000000, 0xfffffff0} {
		for _, dirA := range []bool{true, false} {
			su := ss.Setup{Kind: "blobs", Key: key, CtrAB: start, FinAB: true, CtrBA: 3, FinBA: true}
			if !dirA {
				su = ss.Setup{Kind: "blobs", Key: key, CtrBA: start, FinBA: true, CtrAB: 5, FinAB: true}
			}
			var steps []ss.Step
			var exp []int
			add := func(s ss.Step, e int) { steps = append(steps, s); exp = append(exp, e) }
			for i := 0; i < 3; i++ {
				add(ho(true), 1)
				add(phase(dirA, apis[i%3], direct(i, 2+i)), -1)
				add(ho(false), 1)
				add(phase(!dirA, apis[(i+1)%3], direct(i+3, 1)), -1)
				add(phase(dirA, "complete", direct(i, 1), direct(i, 0)), -1)
			}
			try(&desc{Case: ss.Case{Setup: su, Steps: steps}, Expect: exp, Note: fmt.Sprintf("hand-offs with counter from %#x", start)})
			c.Count("high-counter-handoff")
		}
	}
	// 2. unsafe points: export must be refused, and the session must continue untouched
	type unsafe struct {
		note  string
		setup ss.Setup
		pre   []ss.Step
		who   bool
		post  []ss.Step
	}
	both := []ss.Step{phase(true, "complete", direct(1, 4)), phase(false, "complete", direct(2, 4))}
	cases := []unsafe{
		{"no protected frame exchanged yet", keyed, nil, true, both},
		{"only A->B exchanged (exporter A)", keyed, both[:1], true, both[1:]},
		{"only A->B exchanged (exporter B)", keyed, both[:1], false, both[1:]},
		{"only B->A exchanged (exporter A)", keyed, both[1:], true, both[:1]},
		{"unsent buffered bytes", keyed, append(append([]ss.Step{}, both...), ss.Step{Kind: "phase", ASends: true, SOps: []ss.SOp{{Op: "start"}, {Op: "write", D: ss.Lit([]byte("pending"))}}}), true,
			[]ss.Step{{Kind: "phase", ASends: true, SOps: []ss.SOp{{Op: "end"}}, ROps: []ss.ROp{{Op: "complete"}}}}},
		{"EndMessage done, StartMessage not yet", keyed, append(append([]ss.Step{}, both...), ss.Step{Kind: "phase", ASends: true, SOps: []ss.SOp{{Op: "start"}, {Op: "write", D: ss.Lit([]byte("m"))}, {Op: "end"}}, ROps: []ss.ROp{{Op: "complete"}}}), true,
			[]ss.Step{{Kind: "phase", ASends: true, SOps: []ss.SOp{{Op: "start"}, {Op: "write", D: ss.Lit([]byte("n"))}, {Op: "end"}}, ROps: []ss.ROp{{Op: "complete"}}}}},
		{"inbound message partially consumed", keyed, append(append([]ss.Step{}, both...), ss.Step{Kind: "phase", ASends: true, SOps: direct(3, 6).SOps(), ROps: []ss.ROp{{Op: "start"}, {Op: "read", N: 2}}}), false,
			[]ss.Step{{Kind: "phase", ASends: true, ROps: []ss.ROp{{Op: "read", N: 4}, {Op: "end"}}}}},
		{"inbound message started, nothing consumed", keyed, append(append([]ss.Step{}, both...), ss.Step{Kind: "phase", ASends: true, SOps: direct(3, 6).SOps(), ROps: []ss.ROp{{Op: "start"}}}), false,
			[]ss.Step{{Kind: "phase", ASends: true, ROps: []ss.ROp{{Op: "read", N: 6}, {Op: "end"}}}}},
		{"inbound message partially consumed, EndMessageRead tried and rejected", keyed, append(append([]ss.Step{}, both...), ss.Step{Kind: "phase", ASends: true, SOps: direct(3, 6).SOps(), ROps: []ss.ROp{{Op: "start"}, {Op: "read", N: 2}, {Op: "end"}}, SoftFail: true}), false,
			[]ss.Step{{Kind: "phase", ASends: true, ROps: []ss.ROp{{Op: "read", N: 7}, {Op: "end"}}}, both[0], both[1]}},
		{"inbound message started, EndMessageRead tried at once and rejected", keyed0, append(append([]ss.Step{}, both...), ss.Step{Kind: "phase", ASends: true, SOps: direct(5, 5).SOps(), ROps: []ss.ROp{{Op: "start"}, {Op: "end"}}, SoftFail: true}), false,
			[]ss.Step{{Kind: "phase", ASends: true, ROps: []ss.ROp{{Op: "read", N: 5}, {Op: "end"}}}, both[1]}},
		{"first frame of an inbound message read, the read of the next frame ran dry (timeout), then a hand-off attempt", keyed,
			append(append([]ss.Step{}, both...), ss.Step{Kind: "phase", ASends: true, SOps: []ss.SOp{{Op: "partial", D: ss.Pay(4, 7)}}, ROps: []ss.ROp{{Op: "start"}}, SoftFail: true}), false,
			[]ss.Step{{Kind: "phase", ASends: true, SOps: []ss.SOp{{Op: "send", D: ss.Pay(5, 3)}}, ROps: []ss.ROp{{Op: "start"}, {Op: "read", N: 10}, {Op: "end"}}}, both[1], both[0]}},
		{"two frames of an inbound message read, the third missing (timeout), then a hand-off attempt", keyed0,
			append(append([]ss.Step{}, both...), ss.Step{Kind: "phase", ASends: true, SOps: []ss.SOp{{Op: "partial", D: ss.Pay(4, 5)}, {Op: "partial", D: ss.Pay(6, 1)}}, ROps: []ss.ROp{{Op: "start"}}, SoftFail: true}), false,
			[]ss.Step{{Kind: "phase", ASends: true, SOps: []ss.SOp{{Op: "send", D: ss.Pay(7, 2)}}, ROps: []ss.ROp{{Op: "start"}, {Op: "read", N: 3}, {Op: "read", N: 5}, {Op: "end"}}}, both[0]}},
		{"encryption switched off", keyed, append(append([]ss.Step{}, both...), ss.Step{Kind: "crypto", WhoA: true, On: false}), true,
			[]ss.Step{{Kind: "crypto", WhoA: true, On: true}, both[0]}},
		{"stream never keyed", ss.Setup{Kind: "plain"}, both, true, both},
	}
	for _, u := range cases {
		var steps []ss.Step
		var exp []int
		for _, s := range u.pre {
			steps = append(steps, s)
			exp = append(exp, -1)
		}
		steps = append(steps, ho(u.who))
		exp = append(exp, 0)
		for _, s := range u.post {
			steps = append(steps, s)
			exp = append(exp, -1)
		}
		try(&desc{Case: ss.Case{Setup: u.setup, Steps: steps}, Expect: exp, Note: u.note})
		c.Count("unsafe-point")
	}
	// 3. random histories with hand-offs sprinkled at boundaries
	nr := 25
	if !c.Quick() {
		nr = 400
	}
	for r := 0; r < nr; r++ {
		var steps []ss.Step
		var exp []int
		sentAB, sentBA := false, false
		for i := 0; i < 4+c.Rng.Intn(8); i++ {
			if c.Rng.Intn(3) == 0 {
				e := -1
				if sentAB && sentBA {
					e = 1
				} else {
					e = 0
				}
				steps = append(steps, ho(c.Rng.Intn(2) == 0))
				exp = append(exp, e)
				continue
			}
			a := c.Rng.Intn(2) == 0
			if a {
				sentAB = true
			} else {
				sentBA = true
			}
			var ms []ss.Msg
			for m := 0; m < 1+c.Rng.Intn(2); m++ {
				ms = append(ms, direct(c.Rng.Intn(200), c.Rng.Intn(30), c.Rng.Intn(5000)))
			}
			steps = append(steps, phase(a, apis[c.Rng.Intn(3)], ms...))
			exp = append(exp, -1)
		}
		try(&desc{Case: ss.Case{Setup: keyed, Steps: steps}, Expect: exp, Note: "random"})
		c.Count("random-history")
	}
	blobChecks(c)
	return nil
}

func replay(raw json.RawMessage) error {
	var d desc
	if err := json.Unmarshal(raw, &d); err != nil {
		return err
	}
	if d.Case.Setup.Kind == "" {
		return fmt.Errorf("blob-level finding: re-run bin/check C15 quick")
	}
	return run(nil, &d)
}

func main() { core.Main("C15", gen, replay) }
