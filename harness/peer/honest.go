package peer

import (
	"context"
	"crypto/ecdh"
	"crypto/sha256"
	"encoding/base64"
	"encoding/binary"
	"io"
	"log/slog"
	"time"

	"golang.org/x/crypto/hkdf"

	"github.com/PelicanPlatform/classad/classad"
	"github.com/bbockelm/cedar/message"
	"github.com/bbockelm/cedar/security"
	"github.com/bbockelm/cedar/stream"
)

// Quiet silences cedar's slog output (it logs every handshake step at Info).
func Quiet() {
	slog.SetDefault(slog.New(slog.NewTextHandler(io.Discard, &slog.HandlerOptions{Level: slog.LevelError + 4})))
}

// Policy is one endpoint's security policy as plain strings.
type Policy struct {
	Auth    string   `json:"a"`
	Enc     string   `json:"e"`
	Integ   string   `json:"i,omitempty"`
	Methods []string `json:"m"`
	Ciphers []string `json:"c"`
	Command int      `json:"cmd,omitempty"` // client only; security.NoCommand = auth-only
}

// Config builds a cedar SecurityConfig (fresh private session cache).
func (p Policy) Config() *security.SecurityConfig {
	cfg := &security.SecurityConfig{
		Authentication: security.SecurityLevel(p.Auth),
		Encryption:     security.SecurityLevel(p.Enc),
		Integrity:      security.SecurityLevel(p.Integ),
		Command:        p.Command,
		SessionCache:   security.NewSessionCache(),
		TrustDomain:    "verif.local",
	}
	if p.Integ == "" {
		cfg.Integrity = security.SecurityOptional
	}
	for _, m := range p.Methods {
		cfg.AuthMethods = append(cfg.AuthMethods, security.AuthMethod(m))
	}
	for _, c := range p.Ciphers {
		cfg.CryptoMethods = append(cfg.CryptoMethods, security.CryptoMethod(c))
	}
	return cfg
}

// Result is what one real endpoint reported.
type Result struct {
	Err       error
	Neg       *security.SecurityNegotiation
	Stream    *stream.Stream
	Encrypted bool // Stream.IsEncrypted() after the handshake
	Key       []byte
	Hang      bool
}

// Timeout bounds every handshake run by the harness (a safety net, never
// reached on a healthy run; a hit is reported as Hang).
var Timeout = 20 * time.Second

// RunClient runs the real ClientHandshake on conn.
func RunClient(conn *Conn, cfg *security.SecurityConfig) Result {
	return run(conn, cfg, true)
}

// RunServer runs the real ServerHandshake on conn.
func RunServer(conn *Conn, cfg *security.SecurityConfig) Result {
	return run(conn, cfg, false)
}

// RunServerPerCommand runs the real ServerHandshake with an authenticator whose
// own (default) config is def and whose ServerConfigForCommand hook returns
// perCmd for every command: the policy in force for the handshake is perCmd.
func RunServerPerCommand(conn *Conn, def, perCmd *security.SecurityConfig) Result {
	return runWith(conn, def, false, func(int) *security.SecurityConfig { return perCmd })
}

func run(conn *Conn, cfg *security.SecurityConfig, client bool) (r Result) {
	return runWith(conn, cfg, client, nil)
}

func runWith(conn *Conn, cfg *security.SecurityConfig, client bool, hook func(int) *security.SecurityConfig) (r Result) {
	ctx, cancel := context.WithTimeout(context.Background(), Timeout)
	defer cancel()
	st := stream.NewStream(conn)
	a := security.NewAuthenticator(cfg, st)
	if hook != nil {
		a.ServerConfigForCommand = hook
	}
	defer func() {
		if p := recover(); p != nil {
			r.Err = &PanicError{p}
		}
	}()
	var neg *security.SecurityNegotiation
	var err error
	if client {
		neg, err = a.ClientHandshake(ctx)
	} else {
		neg, err = a.ServerHandshake(ctx)
	}
	r = Result{Err: err, Neg: neg, Stream: st, Encrypted: st.IsEncrypted()}
	if ctx.Err() != nil {
		r.Hang = true
	}
	if neg != nil {
		r.Key = neg.GetSharedSecret()
	}
	return r
}

type PanicError struct{ V interface{} }

func (p *PanicError) Error() string { return "panic" }

// SendMarker makes the endpoint behind st write one message carrying marker;
// RecvMarker reads one message on the other end and returns its bytes.
func SendMarker(st *stream.Stream, marker []byte) error {
	ctx, cancel := context.WithTimeout(context.Background(), Timeout)
	defer cancel()
	m := message.NewMessageForStream(st)
	if err := m.PutBytes(ctx, marker); err != nil {
		return err
	}
	return m.FinishMessage(ctx)
}

func RecvMarker(st *stream.Stream, n int) ([]byte, error) {
	ctx, cancel := context.WithTimeout(context.Background(), Timeout)
	defer cancel()
	m := message.NewMessageFromStream(st)
	return m.GetBytes(ctx, n)
}

// ---- reference pieces of the wire protocol (written from the protocol
// description, independent of cedar's security package) -------------------

// Int64 is the 8-byte big-endian encoding every CEDAR integer uses.
func Int64(x int64) []byte {
	var t [8]byte
	binary.BigEndian.PutUint64(t[:], uint64(x))
	return t[:]
}

// ReadInt64 decodes the first 8 bytes of b.
func ReadInt64(b []byte) (int64, bool) {
	if len(b) < 8 {
		return 0, false
	}
	return int64(binary.BigEndian.Uint64(b[:8])), true
}

// DeriveKey is HTCondor's session-key derivation: ECDH(P-256) then
// HKDF-SHA256(salt "htcondor", info "keygen"), 32 bytes.
func DeriveKey(priv *ecdh.PrivateKey, peerPubB64 string) ([]byte, error) {
	raw, err := base64.StdEncoding.DecodeString(peerPubB64)
	if err != nil {
		return nil, err
	}
	pub, err := ecdh.P256().NewPublicKey(raw)
	if err != nil {
		return nil, err
	}
	sec, err := priv.ECDH(pub)
	if err != nil {
		return nil, err
	}
	out := make([]byte, 32)
	if _, err := io.ReadFull(hkdf.New(sha256.New, sec, []byte("htcondor"), []byte("keygen")), out); err != nil {
		return nil, err
	}
	return out, nil
}

// AdString returns a string attribute of an ad ("" if absent).
func AdString(ad *classad.ClassAd, name string) string {
	s, _ := ad.EvaluateAttrString(name)
	return s
}
