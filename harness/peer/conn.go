// Package peer provides (1) an in-memory, buffered, tapped net.Conn pair and
// (2) scripted CEDAR handshake peers that speak the real wire protocol through
// cedar's own stream/message packages.  It is used by vh-c10 and vh-c03 and is
// meant to be reusable (API documented in /verif/notes/C03.md).
package peer

import (
	"bytes"
	"encoding/binary"
	"errors"
	"io"
	"net"
	"sync"
	"time"
)

// Write is one Write call seen on the wire.
type Write struct {
	FromA bool // true: written by end A (conventionally the client)
	Data  []byte
}

// Tap records every byte written in either direction, in global order.
type Tap struct {
	mu     sync.Mutex
	Writes []Write
}

func (t *Tap) add(fromA bool, b []byte) {
	t.mu.Lock()
	t.Writes = append(t.Writes, Write{fromA, append([]byte(nil), b...)})
	t.mu.Unlock()
}

// Bytes returns everything written by one end (A if fromA), concatenated.
func (t *Tap) Bytes(fromA bool) []byte {
	t.mu.Lock()
	defer t.mu.Unlock()
	var out []byte
	for _, w := range t.Writes {
		if w.FromA == fromA {
			out = append(out, w.Data...)
		}
	}
	return out
}

// Ordered returns a copy of all writes in the order they happened.
func (t *Tap) Ordered() []Write {
	t.mu.Lock()
	defer t.mu.Unlock()
	return append([]Write(nil), t.Writes...)
}

// OrderedMessages reassembles the cleartext messages of both directions and
// tells, for each, its position in the global order of completion: msgs[0] are
// the messages written by end A, msgs[1] those of end B, pos likewise.
func (t *Tap) OrderedMessages() (msgs [2][][]byte, pos [2][]int) {
	var buf [2][]byte
	var cur [2][]byte
	n := 0
	for _, w := range t.Ordered() {
		d := 1
		if w.FromA {
			d = 0
		}
		buf[d] = append(buf[d], w.Data...)
		for {
			fr, rest := ParseFrames(buf[d])
			if len(fr) == 0 {
				break
			}
			buf[d] = rest
			for _, f := range fr {
				cur[d] = append(cur[d], f.Payload...)
				if f.End != 0 {
					msgs[d] = append(msgs[d], cur[d])
					pos[d] = append(pos[d], n)
					n++
					cur[d] = nil
				}
			}
		}
	}
	return
}

// Len is the number of bytes written so far by one end.
func (t *Tap) Len(fromA bool) int { return len(t.Bytes(fromA)) }

// Contains reports whether marker occurs in what one end wrote from offset on.
func (t *Tap) Contains(fromA bool, from int, marker []byte) bool {
	b := t.Bytes(fromA)
	if from > len(b) {
		from = len(b)
	}
	return bytes.Contains(b[from:], marker)
}

type half struct {
	mu     sync.Mutex
	cond   *sync.Cond
	buf    []byte
	closed bool // writer side closed (EOF after drain)
}

func newHalf() *half { h := &half{}; h.cond = sync.NewCond(&h.mu); return h }

// Conn is one end of an unbounded, buffered in-memory duplex connection.
// Writes never block; Read blocks until data, EOF (peer closed) or local Close.
type Conn struct {
	isA      bool
	in, out  *half
	tap      *Tap
	mu       sync.Mutex
	closed   bool
	peerName string
}

type addr string

func (a addr) Network() string { return "mem" }
func (a addr) String() string  { return string(a) }

// Pipe returns the two ends (A, B) and the tap between them.
func Pipe() (*Conn, *Conn, *Tap) {
	ab, ba := newHalf(), newHalf()
	t := &Tap{}
	a := &Conn{isA: true, in: ba, out: ab, tap: t, peerName: "peerB:1"}
	b := &Conn{isA: false, in: ab, out: ba, tap: t, peerName: "peerA:1"}
	return a, b, t
}

var ErrClosed = errors.New("peer: use of closed connection")

func (c *Conn) Read(p []byte) (int, error) {
	h := c.in
	h.mu.Lock()
	defer h.mu.Unlock()
	for {
		c.mu.Lock()
		cl := c.closed
		c.mu.Unlock()
		if cl {
			return 0, ErrClosed
		}
		if len(h.buf) > 0 {
			n := copy(p, h.buf)
			h.buf = h.buf[n:]
			return n, nil
		}
		if h.closed {
			return 0, io.EOF
		}
		h.cond.Wait()
	}
}

func (c *Conn) Write(p []byte) (int, error) {
	c.mu.Lock()
	cl := c.closed
	c.mu.Unlock()
	if cl {
		return 0, ErrClosed
	}
	h := c.out
	h.mu.Lock()
	if h.closed {
		h.mu.Unlock()
		return 0, io.ErrClosedPipe
	}
	h.buf = append(h.buf, p...)
	c.tap.add(c.isA, p)
	h.cond.Broadcast()
	h.mu.Unlock()
	return len(p), nil
}

// Close closes this end: local reads fail, the peer sees EOF after draining.
func (c *Conn) Close() error {
	c.mu.Lock()
	if c.closed {
		c.mu.Unlock()
		return nil
	}
	c.closed = true
	c.mu.Unlock()
	c.out.mu.Lock()
	c.out.closed = true
	c.out.cond.Broadcast()
	c.out.mu.Unlock()
	c.in.mu.Lock()
	c.in.cond.Broadcast()
	c.in.mu.Unlock()
	return nil
}

func (c *Conn) LocalAddr() net.Addr                { return addr("local:0") }
func (c *Conn) RemoteAddr() net.Addr               { return addr(c.peerName) }
func (c *Conn) SetDeadline(t time.Time) error      { return nil }
func (c *Conn) SetReadDeadline(t time.Time) error  { return nil }
func (c *Conn) SetWriteDeadline(t time.Time) error { return nil }

// SetPeerName changes what RemoteAddr reports (cedar derives the session-cache
// address from it).
func (c *Conn) SetPeerName(s string) { c.peerName = s }

// WireFrame is one CEDAR frame as seen on the wire (payload possibly encrypted).
type WireFrame struct {
	End     byte
	Payload []byte
}

// ParseFrames splits raw wire bytes into frames (5-byte header: end flag,
// big-endian length).  It returns the complete frames and the unparsed rest.
func ParseFrames(b []byte) ([]WireFrame, []byte) {
	var out []WireFrame
	for len(b) >= 5 {
		n := int(binary.BigEndian.Uint32(b[1:5]))
		if len(b) < 5+n {
			break
		}
		out = append(out, WireFrame{b[0], append([]byte(nil), b[5:5+n]...)})
		b = b[5+n:]
	}
	return out, b
}

// Messages groups cleartext frames into messages (concatenating up to the
// frame whose end flag is non-zero).
func Messages(fr []WireFrame) [][]byte {
	var out [][]byte
	var cur []byte
	for _, f := range fr {
		cur = append(cur, f.Payload...)
		if f.End != 0 {
			out = append(out, cur)
			cur = nil
		}
	}
	return out
}
