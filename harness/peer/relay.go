package peer

import (
	"encoding/base64"
	"io"
	"sync"

	"github.com/PelicanPlatform/classad/classad"
	"github.com/bbockelm/cedar/message"
	"github.com/bbockelm/cedar/stream"
)

// KeyEdit says what a relay does to the ECDHPublicKey attribute of a security ad
// it forwards: "" leaves it alone, "drop" removes it, "truncate" keeps the first
// 40 bytes of the key, "garbage" replaces it with text that is not base64.
type KeyEdit string

func editKey(ad *classad.ClassAd, e KeyEdit) *classad.ClassAd {
	if e == "" {
		return ad
	}
	cur, _ := ad.EvaluateAttrString("ECDHPublicKey")
	ad.Delete("ECDHPublicKey")
	switch e {
	case "truncate":
		raw, _ := base64.StdEncoding.DecodeString(cur)
		if len(raw) > 40 {
			raw = raw[:40]
		}
		_ = ad.Set("ECDHPublicKey", base64.StdEncoding.EncodeToString(raw))
	case "garbage":
		_ = ad.Set("ECDHPublicKey", "!!not*base64!!")
	}
	return ad
}

// Relay sits between a real client (on cside) and a real server (on sside): it
// re-sends the client's request ad and the server's response ad through cedar's
// own message package, editing only the ECDH key attribute as told, and then
// copies every further byte verbatim in both directions.  This turns an honest
// cedar peer - whatever authentication method it runs, TOKEN included - into a
// peer that omits or corrupts its key-exchange material.
func Relay(cside, sside *Conn, clientKey, serverKey KeyEdit) {
	ctx, cancel := ctxT()
	defer cancel()
	defer cside.Close()
	defer sside.Close()
	cs, ss := stream.NewStream(cside), stream.NewStream(sside)
	in := message.NewMessageFromStream(cs)
	cmd, err := in.GetInt(ctx)
	if err != nil {
		return
	}
	cad, err := in.GetClassAdWithMaxSize(ctx, 1<<16)
	if err != nil {
		return
	}
	out := message.NewMessageForStream(ss)
	if out.PutInt(ctx, cmd) != nil || out.PutClassAd(ctx, editKey(cad, clientKey)) != nil || out.FinishMessage(ctx) != nil {
		return
	}
	rin := message.NewMessageFromStream(ss)
	sad, err := rin.GetClassAdWithMaxSize(ctx, 1<<16)
	if err != nil {
		return
	}
	rout := message.NewMessageForStream(cs)
	if rout.PutClassAd(ctx, editKey(sad, serverKey)) != nil || rout.FinishMessage(ctx) != nil {
		return
	}
	var wg sync.WaitGroup
	wg.Add(2)
	go func() { defer wg.Done(); io.Copy(sside, cside); sside.Close() }()
	go func() { defer wg.Done(); io.Copy(cside, sside); cside.Close() }()
	wg.Wait()
}
