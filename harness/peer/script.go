package peer

import (
	"context"
	"crypto/ecdh"
	"crypto/rand"
	"encoding/base64"
	mrand "math/rand"

	"github.com/PelicanPlatform/classad/classad"
	"github.com/bbockelm/cedar/commands"
	"github.com/bbockelm/cedar/message"
	"github.com/bbockelm/cedar/stream"
)

// Exchange is one authentication sub-protocol run the scripted peer took part in.
type Exchange struct {
	Method string `json:"m"`
	OK     bool   `json:"ok"`
}

// Log is what a scripted peer observed.
type Log struct {
	Ran      []Exchange        // exchanges that ran on the wire, with result
	Masks    []int64           // bitmasks seen (server peer) / sent (client peer)
	Replies  []int64           // replies sent (server peer) / seen (client peer)
	PeerAd   map[string]string // string attributes of the endpoint's security ad
	Finished bool              // the script ran to its normal end (connection left open)
	Note     string
	// DerivedKey is the session key the peer computes on its own (reference ECDH +
	// HKDF) from its private key and the endpoint's advertised public key; nil when
	// the peer holds no usable private key or the endpoint advertised none.
	DerivedKey []byte
}

// Key material variants for the ECDHPublicKey attribute.
const (
	KeyGood      = "good"      // valid point, the peer holds the private key
	KeyUnknown   = "unknown"   // valid point, private key discarded
	KeyMissing   = "missing"   // attribute omitted
	KeyTruncated = "truncated" // base64 of the first 40 bytes
	KeyOffCurve  = "offcurve"  // 0x04 || 64 bytes that are not a curve point
	KeyGarbage   = "garbage"   // not base64
)

func makeKey(kind string, rng *mrand.Rand) (attr string, priv *ecdh.PrivateKey) {
	k, err := ecdh.P256().GenerateKey(rand.Reader)
	if err != nil {
		panic(err)
	}
	pub := k.PublicKey().Bytes()
	switch kind {
	case KeyGood:
		return base64.StdEncoding.EncodeToString(pub), k
	case KeyUnknown:
		return base64.StdEncoding.EncodeToString(pub), nil
	case KeyTruncated:
		return base64.StdEncoding.EncodeToString(pub[:40]), nil
	case KeyOffCurve:
		for {
			b := make([]byte, 65)
			b[0] = 4
			for i := 1; i < 65; i++ {
				b[i] = byte(rng.Intn(256))
			}
			if _, err := ecdh.P256().NewPublicKey(b); err != nil {
				return base64.StdEncoding.EncodeToString(b), nil
			}
		}
	case KeyGarbage:
		return "!!not*base64!!", nil
	}
	return "", nil
}

// small reference table of the CAUTH_* method bits (condor_auth.h), independent
// of cedar's own table
const (
	bitClaimToBe = 2
	bitPassword  = 512
)

func knownSingleMethodBit(b int64) bool {
	switch b {
	case 2, 4, 64, 256, 512, 2048, 4096:
		return true
	}
	return false
}

// ---- scripted server -------------------------------------------------------------

type Reply struct {
	Bit      int64 `json:"bit"`
	Ack      bool  `json:"ack,omitempty"` // CLAIMTOBE: accept the claim
	HasKeyOK bool  `json:"hk,omitempty"`  // after success: send a well-formed (empty) key message
}

// SrvScript is a scripted server: everything it sends is spelled out.
type SrvScript struct {
	RC      string  `json:"rc,omitempty"`   // ReturnCode of the response ad ("" = absent)
	Auth    string  `json:"auth,omitempty"` // Authentication string ("" = absent)
	Enc     string  `json:"enc,omitempty"`
	List    string  `json:"list,omitempty"`    // AuthMethodsList
	Single  string  `json:"single,omitempty"`  // AuthMethods
	CList   string  `json:"clist,omitempty"`   // CryptoMethodsList
	CSingle string  `json:"csingle,omitempty"` // CryptoMethods
	Key     string  `json:"key"`
	Replies []Reply `json:"replies,omitempty"`
	Post    string  `json:"post"`             // clear | sealed | absent
	PostRC  string  `json:"postrc,omitempty"` // "" absent, AUTHORIZED, DENIED
	// PostExtra: further string attributes of the post-auth ad, e.g. ones that
	// contradict what happened on the wire (AuthMethods, Authentication, Encryption,
	// CryptoMethods, User ...); PostExtraBool likewise for boolean attributes.
	PostExtra     map[string]string `json:"postextra,omitempty"`
	PostExtraBool map[string]bool   `json:"postextrabool,omitempty"`
}

func ctxT() (context.Context, context.CancelFunc) {
	return context.WithTimeout(context.Background(), Timeout)
}

// ServeScript plays a scripted server on conn against a real client.  It leaves
// the connection open only when the script reached its normal end.
func ServeScript(conn *Conn, sc SrvScript, rng *mrand.Rand) (lg *Log) {
	lg = &Log{PeerAd: map[string]string{}}
	ctx, cancel := ctxT()
	defer cancel()
	defer func() {
		if p := recover(); p != nil {
			lg.Note = "peer panic"
		}
		if !lg.Finished {
			conn.Close()
		}
	}()
	st := stream.NewStream(conn)
	in := message.NewMessageFromStream(st)
	if _, err := in.GetInt(ctx); err != nil {
		return
	}
	cad, err := in.GetClassAdWithMaxSize(ctx, 1<<16)
	if err != nil {
		return
	}
	for _, k := range []string{"AuthMethods", "CryptoMethods", "Authentication", "Encryption", "Integrity", "ECDHPublicKey"} {
		lg.PeerAd[k] = AdString(cad, k)
	}
	keyAttr, priv := makeKey(sc.Key, rng)
	if priv != nil && lg.PeerAd["ECDHPublicKey"] != "" {
		lg.DerivedKey, _ = DeriveKey(priv, lg.PeerAd["ECDHPublicKey"])
	}
	ad := classad.New()
	set := func(k, v string) {
		if v != "" {
			_ = ad.Set(k, v)
		}
	}
	set("ReturnCode", sc.RC)
	set("Authentication", sc.Auth)
	set("Encryption", sc.Enc)
	_ = ad.Set("Integrity", "NO")
	set("AuthMethodsList", sc.List)
	set("AuthMethods", sc.Single)
	set("CryptoMethodsList", sc.CList)
	set("CryptoMethods", sc.CSingle)
	set("ECDHPublicKey", keyAttr)
	_ = ad.Set("NegotiatedSession", true)
	_ = ad.Set("Enact", "YES")
	out := message.NewMessageForStream(st)
	if out.PutClassAd(ctx, ad) != nil || out.FinishMessage(ctx) != nil {
		return
	}
	if sc.RC != "" && sc.RC != "AUTHORIZED" {
		return
	}
	sendInt := func(v int64) bool {
		m := message.NewMessageForStream(st)
		return m.PutInt64(ctx, v) == nil && m.FinishMessage(ctx) == nil
	}
	if sc.Auth == "YES" {
		done := false
		for _, rp := range sc.Replies {
			m := message.NewMessageFromStream(st)
			b, err := m.GetInt64(ctx)
			if err != nil {
				return
			}
			lg.Masks = append(lg.Masks, b)
			if b == 0 {
				return
			}
			if !sendInt(rp.Bit) {
				return
			}
			lg.Replies = append(lg.Replies, rp.Bit)
			if rp.Bit == bitClaimToBe {
				cm := message.NewMessageFromStream(st)
				status, err := cm.GetInt64(ctx)
				if err != nil {
					return // the client did not start the exchange
				}
				if status == 1 {
					if _, err := cm.GetString(ctx); err != nil {
						return
					}
				}
				ack := int64(0)
				if rp.Ack && status == 1 {
					ack = 1
				}
				if !sendInt(ack) {
					return
				}
				lg.Ran = append(lg.Ran, Exchange{"CLAIMTOBE", ack == 1})
				if ack == 1 {
					if rp.HasKeyOK {
						if !sendInt(0) {
							return
						}
						done = true
						break
					}
					sendInt(1) // announces a key, then goes away
					return
				}
				continue
			}
			if rp.Bit == 0 {
				return
			}
			if rp.Bit == bitPassword || !knownSingleMethodBit(rp.Bit) {
				continue // nothing on the wire; the client comes back with its next bitmask
			}
			return // a method this peer does not serve
		}
		if !done {
			return
		}
	}
	switch sc.Post {
	case "absent":
		return
	case "sealed":
		var key []byte
		if priv != nil {
			key, _ = DeriveKey(priv, lg.PeerAd["ECDHPublicKey"])
		}
		if key == nil {
			key = make([]byte, 32)
			rng.Read(key)
		}
		if st.SetSymmetricKey(key) != nil {
			return
		}
	}
	pad := classad.New()
	set2 := func(k, v string) {
		if v != "" {
			_ = pad.Set(k, v)
		}
	}
	set2("ReturnCode", sc.PostRC)
	set2("Sid", "verif-scripted-sid")
	set2("User", "scripted@verif.local")
	set2("ValidCommands", "60007")
	_ = pad.Set("SessionDuration", 60)
	_ = pad.Set("SessionLease", 30)
	for k, v := range sc.PostExtra {
		_ = pad.Set(k, v)
	}
	for k, v := range sc.PostExtraBool {
		_ = pad.Set(k, v)
	}
	pm := message.NewMessageForStream(st)
	if pm.PutClassAd(ctx, pad) != nil || pm.FinishMessage(ctx) != nil {
		return
	}
	lg.Finished = true
	return
}

// ---- scripted client -------------------------------------------------------------

type MaskStep struct {
	Mask  int64  `json:"mask"`
	Claim string `json:"claim,omitempty"` // CLAIMTOBE behaviour: ok | fail | abort
}

// CliScript is a scripted client.
type CliScript struct {
	CmdOK   bool       `json:"cmdok"` // leading integer is DC_AUTHENTICATE
	Auth    string     `json:"auth,omitempty"`
	Enc     string     `json:"enc,omitempty"`
	Integ   string     `json:"integ,omitempty"`
	Methods string     `json:"methods,omitempty"`
	Ciphers string     `json:"ciphers,omitempty"`
	Key     string     `json:"key"`
	Masks   []MaskStep `json:"masks,omitempty"`
}

// DialScript plays a scripted client on conn against a real server.  It leaves
// the connection open only when the script reached its normal end (the
// authentication phase is over or was not asked for).
func DialScript(conn *Conn, sc CliScript, rng *mrand.Rand) (lg *Log) {
	lg = &Log{PeerAd: map[string]string{}}
	ctx, cancel := ctxT()
	defer cancel()
	defer func() {
		if p := recover(); p != nil {
			lg.Note = "peer panic"
		}
		if !lg.Finished {
			conn.Close()
		}
	}()
	st := stream.NewStream(conn)
	keyAttr, priv := makeKey(sc.Key, rng)
	ad := classad.New()
	set := func(k, v string) {
		if v != "" {
			_ = ad.Set(k, v)
		}
	}
	set("AuthMethods", sc.Methods)
	set("CryptoMethods", sc.Ciphers)
	set("Authentication", sc.Auth)
	set("Encryption", sc.Enc)
	set("Integrity", sc.Integ)
	set("ECDHPublicKey", keyAttr)
	_ = ad.Set("Command", 60007)
	_ = ad.Set("NewSession", "YES")
	_ = ad.Set("NegotiatedSession", true)
	_ = ad.Set("Enact", "NO")
	out := message.NewMessageForStream(st)
	cmd := commands.DC_AUTHENTICATE
	if !sc.CmdOK {
		cmd = 60007
	}
	if out.PutInt(ctx, cmd) != nil || out.PutClassAd(ctx, ad) != nil || out.FinishMessage(ctx) != nil {
		return
	}
	in := message.NewMessageFromStream(st)
	sad, err := in.GetClassAdWithMaxSize(ctx, 1<<16)
	if err != nil {
		return
	}
	for _, k := range []string{"ReturnCode", "Authentication", "Encryption", "AuthMethods", "AuthMethodsList", "CryptoMethods", "ECDHPublicKey"} {
		lg.PeerAd[k] = AdString(sad, k)
	}
	if rc := lg.PeerAd["ReturnCode"]; rc != "" && rc != "AUTHORIZED" {
		return
	}
	if priv != nil && lg.PeerAd["ECDHPublicKey"] != "" {
		lg.DerivedKey, _ = DeriveKey(priv, lg.PeerAd["ECDHPublicKey"])
	}
	sendInt := func(v int64) bool {
		m := message.NewMessageForStream(st)
		return m.PutInt64(ctx, v) == nil && m.FinishMessage(ctx) == nil
	}
	if lg.PeerAd["Authentication"] == "YES" {
		done := false
		for _, ms := range sc.Masks {
			if !sendInt(ms.Mask) {
				return
			}
			lg.Masks = append(lg.Masks, ms.Mask)
			if ms.Mask == 0 {
				return
			}
			m := message.NewMessageFromStream(st)
			r, err := m.GetInt64(ctx)
			if err != nil {
				return
			}
			lg.Replies = append(lg.Replies, r)
			if r == bitClaimToBe {
				switch ms.Claim {
				case "ok":
					cm := message.NewMessageForStream(st)
					if cm.PutInt64(ctx, 1) != nil || cm.PutString(ctx, "alice@verif.local") != nil || cm.FinishMessage(ctx) != nil {
						return
					}
					am := message.NewMessageFromStream(st)
					ack, err := am.GetInt64(ctx)
					if err != nil {
						return
					}
					lg.Ran = append(lg.Ran, Exchange{"CLAIMTOBE", ack == 1})
					if ack == 1 {
						km := message.NewMessageFromStream(st)
						if _, err := km.GetInt64(ctx); err != nil {
							return
						}
						done = true
					}
				case "fail":
					if !sendInt(0) {
						return
					}
					lg.Ran = append(lg.Ran, Exchange{"CLAIMTOBE", false})
				default:
					return
				}
				if done {
					break
				}
				continue
			}
			if r == 0 || r == bitPassword {
				continue
			}
			return // a method this peer does not speak
		}
		if !done {
			return
		}
	}
	lg.Finished = true
	return
}

// ---- session resumption ------------------------------------------------------------

// ServeResume plays a scripted server answering a resumption request: mode is
// "authorized" (ReturnCode AUTHORIZED + Sid), "norc" (an ad without ReturnCode),
// "notfound" (SID_NOT_FOUND), "denied" (ReturnCode DENIED) or "close".
func ServeResume(conn *Conn, mode string) (lg *Log) {
	lg = &Log{PeerAd: map[string]string{}}
	ctx, cancel := ctxT()
	defer cancel()
	defer func() {
		recover()
		if !lg.Finished {
			conn.Close()
		}
	}()
	st := stream.NewStream(conn)
	in := message.NewMessageFromStream(st)
	if _, err := in.GetInt(ctx); err != nil {
		return
	}
	cad, err := in.GetClassAdWithMaxSize(ctx, 1<<16)
	if err != nil {
		return
	}
	for _, k := range []string{"UseSession", "Sid", "CryptoMethods"} {
		lg.PeerAd[k] = AdString(cad, k)
	}
	if mode == "close" {
		return
	}
	ad := classad.New()
	switch mode {
	case "authorized":
		_ = ad.Set("ReturnCode", "AUTHORIZED")
	case "notfound":
		_ = ad.Set("ReturnCode", "SID_NOT_FOUND")
	case "denied":
		_ = ad.Set("ReturnCode", "DENIED")
	}
	_ = ad.Set("Sid", lg.PeerAd["Sid"])
	out := message.NewMessageForStream(st)
	if out.PutClassAd(ctx, ad) != nil || out.FinishMessage(ctx) != nil {
		return
	}
	lg.Finished = true
	return
}

// DialResume plays a scripted client asking to resume session sid.
func DialResume(conn *Conn, sid string, wantReply bool, command int) (lg *Log) {
	lg = &Log{PeerAd: map[string]string{}}
	ctx, cancel := ctxT()
	defer cancel()
	defer func() {
		recover()
		if !lg.Finished {
			conn.Close()
		}
	}()
	st := stream.NewStream(conn)
	ad := classad.New()
	_ = ad.Set("Command", command)
	_ = ad.Set("UseSession", "YES")
	_ = ad.Set("Sid", sid)
	if wantReply {
		_ = ad.Set("ResumeResponse", true)
	}
	out := message.NewMessageForStream(st)
	if out.PutInt(ctx, commands.DC_AUTHENTICATE) != nil || out.PutClassAd(ctx, ad) != nil || out.FinishMessage(ctx) != nil {
		return
	}
	if wantReply {
		in := message.NewMessageFromStream(st)
		rad, err := in.GetClassAdWithMaxSize(ctx, 1<<16)
		if err != nil {
			return
		}
		lg.PeerAd["ReturnCode"] = AdString(rad, "ReturnCode")
	}
	lg.Finished = true
	return
}
