package peer

import (
	"crypto/hmac"
	"crypto/sha256"
	"encoding/base64"
	"encoding/json"
	"io"
	"os"
	"path/filepath"
	"time"

	"golang.org/x/crypto/hkdf"

	"github.com/bbockelm/cedar/security"
)

// TokenWorld is a throw-away pool signing key plus a token signed with it, so
// that TOKEN authentication (the only method family that leaves a shared secret
// in the negotiation) really runs between two cedar endpoints.
type TokenWorld struct {
	Dir         string
	PoolKeyFile string
	KeyDir      string
	TokenFile   string
	Domain      string
}

var tokenPoolKey = []byte("verif_pool_signing_key_32_bytes!")

func scramble(b []byte) []byte {
	db := []byte{0xde, 0xad, 0xbe, 0xef}
	o := make([]byte, len(b))
	for i := range b {
		o[i] = b[i] ^ db[i%4]
	}
	return o
}

// NewTokenWorld writes the key and token files under a fresh temp directory.
// The token format is HTCondor's: HS256 JWT with kid POOL, signed with
// HMAC-SHA256 under HKDF(pool key doubled, "htcondor", "master jwt").
func NewTokenWorld(domain string) (*TokenWorld, error) {
	dir, err := os.MkdirTemp("", "verif-token-")
	if err != nil {
		return nil, err
	}
	w := &TokenWorld{Dir: dir, PoolKeyFile: filepath.Join(dir, "pool_key"), KeyDir: filepath.Join(dir, "named"),
		TokenFile: filepath.Join(dir, "token.jwt"), Domain: domain}
	if err := os.WriteFile(w.PoolKeyFile, scramble(tokenPoolKey), 0o600); err != nil {
		return nil, err
	}
	if err := os.MkdirAll(w.KeyDir, 0o700); err != nil {
		return nil, err
	}
	b64 := base64.RawURLEncoding.EncodeToString
	hdr, _ := json.Marshal(map[string]interface{}{"alg": "HS256", "typ": "JWT", "kid": "POOL"})
	now := time.Now().Unix()
	pl, _ := json.Marshal(map[string]interface{}{"sub": "alice@" + domain, "iss": domain, "iat": now - 5, "exp": now + 7200})
	data := b64(hdr) + "." + b64(pl)
	signing := append(append([]byte{}, tokenPoolKey...), tokenPoolKey...)
	jwtKey := make([]byte, 32)
	if _, err := io.ReadFull(hkdf.New(sha256.New, signing, []byte("htcondor"), []byte("master jwt")), jwtKey); err != nil {
		return nil, err
	}
	mac := hmac.New(sha256.New, jwtKey)
	mac.Write([]byte(data))
	tok := data + "." + b64(mac.Sum(nil)[:32])
	if err := os.WriteFile(w.TokenFile, []byte(tok+"\n"), 0o600); err != nil {
		return nil, err
	}
	return w, nil
}

func (w *TokenWorld) Cleanup() { os.RemoveAll(w.Dir) }

// Client / Server add the token material to a config built from a Policy.
func (w *TokenWorld) Client(cfg *security.SecurityConfig) *security.SecurityConfig {
	cfg.TokenFile = w.TokenFile
	cfg.TrustDomain = w.Domain
	cfg.IssuerKeys = []string{"POOL"}
	return cfg
}
func (w *TokenWorld) Server(cfg *security.SecurityConfig) *security.SecurityConfig {
	cfg.TokenPoolSigningKeyFile = w.PoolKeyFile
	cfg.TokenSigningKeyDir = w.KeyDir
	cfg.TrustDomain = w.Domain
	return cfg
}
