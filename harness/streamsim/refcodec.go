package streamsim

// Reference codec for protected CEDAR frames, written from the documented
// format (protocol/ and the property text), independent of stream.go:
//
//	AES-256-GCM, 16-byte nonce = base IV with its leading big-endian 32-bit
//	word advanced by the per-direction frame counter (mod 2^32); the base IV is
//	transmitted in front of the first frame's ciphertext only; AAD = 5-byte
//	header, preceded on the first frame of a direction by
//	SHA256(cleartext sent by the frame's sender) || SHA256(cleartext it received),
//	all-zero for a direction in which nothing was sent in the clear.

import (
	"crypto/aes"
	"crypto/cipher"
	"crypto/sha256"
	"encoding/binary"
	"errors"
)

// Dir is the reference state of ONE direction of a session (sender -> receiver).
type Dir struct {
	Key     []byte
	BaseIV  []byte // known after the first frame
	Counter uint32
	First   bool // first protected frame not yet seen
	// cleartext (header+payload of every pre-key frame) sent by this direction's
	// sender, and received by it (i.e. sent by the other side)
	SentClear, RecvClear []byte
	SentAny, RecvAny     bool
}

func NewDir(key []byte) *Dir { return &Dir{Key: append([]byte(nil), key...), First: true} }

func (d *Dir) gcm() (cipher.AEAD, error) {
	blk, err := aes.NewCipher(d.Key)
	if err != nil {
		return nil, err
	}
	return cipher.NewGCMWithNonceSize(blk, 16)
}

func digestOf(any bool, clear []byte) []byte {
	if !any {
		return make([]byte, 32)
	}
	h := sha256.Sum256(clear)
	return h[:]
}

// Nonce returns the nonce of frame number ctr for base IV iv.
func Nonce(iv []byte, ctr uint32) []byte {
	n := append([]byte(nil), iv...)
	binary.BigEndian.PutUint32(n[:4], binary.BigEndian.Uint32(iv[:4])+ctr)
	return n
}

// Opened describes how a protected frame was opened by the reference codec.
type Opened struct {
	Plain    []byte
	IV       []byte // non-nil iff the frame carried the base IV
	Nonce    []byte
	AADFirst bool
	SentZero bool // first-frame AAD: sender-sent digest is the zero block
	RecvZero bool
}

// Open opens the next protected frame of this direction.
func (d *Dir) Open(f RawFrame) (*Opened, error) {
	body := f.Body
	o := &Opened{}
	if d.BaseIV == nil {
		if len(body) < 16 {
			return nil, errors.New("refcodec: first frame shorter than the IV")
		}
		o.IV = append([]byte(nil), body[:16]...)
		body = body[16:]
	}
	iv := d.BaseIV
	if iv == nil {
		iv = o.IV
	}
	if len(body) < 16 {
		return nil, errors.New("refcodec: ciphertext shorter than the tag")
	}
	hdr := f.Bytes()[:5]
	var aad []byte
	if d.First {
		o.AADFirst = true
		o.SentZero, o.RecvZero = !d.SentAny, !d.RecvAny
		aad = append(aad, digestOf(d.SentAny, d.SentClear)...)
		aad = append(aad, digestOf(d.RecvAny, d.RecvClear)...)
	}
	aad = append(aad, hdr...)
	g, err := d.gcm()
	if err != nil {
		return nil, err
	}
	o.Nonce = Nonce(iv, d.Counter)
	pt, err := g.Open(nil, o.Nonce, body, aad)
	if err != nil {
		return nil, err
	}
	o.Plain = pt
	if d.BaseIV == nil {
		d.BaseIV = o.IV
	}
	d.First = false
	d.Counter++
	return o, nil
}

// Seal builds the next protected frame of this direction with the reference
// construction. iv must be given for the first frame (d.BaseIV == nil).
func (d *Dir) Seal(flag byte, plain []byte, iv []byte) (RawFrame, error) {
	sendIV := d.BaseIV == nil
	if sendIV {
		d.BaseIV = append([]byte(nil), iv...)
	}
	n := len(plain) + 16
	if sendIV {
		n += 16
	}
	f := RawFrame{Flag: flag, Len: uint32(n)}
	hdr := f.Bytes()[:5]
	var aad []byte
	if d.First {
		aad = append(aad, digestOf(d.SentAny, d.SentClear)...)
		aad = append(aad, digestOf(d.RecvAny, d.RecvClear)...)
	}
	aad = append(aad, hdr...)
	g, err := d.gcm()
	if err != nil {
		return f, err
	}
	ct := g.Seal(nil, Nonce(d.BaseIV, d.Counter), plain, aad)
	if sendIV {
		f.Body = append(append([]byte(nil), d.BaseIV...), ct...)
	} else {
		f.Body = ct
	}
	d.First = false
	d.Counter++
	return f, nil
}

// NoteClear records a cleartext frame sent in this direction (before keying).
func NoteClear(sender, receiver *Dir, f RawFrame) {
	b := f.Bytes()
	sender.SentClear = append(sender.SentClear, b...)
	sender.SentAny = true
	receiver.RecvClear = append(receiver.RecvClear, b...)
	receiver.RecvAny = true
}
