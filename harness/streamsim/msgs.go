package streamsim

// Well-formed application-level message descriptions and their translation
// into sender / receiver operation lists.

type Msg struct {
	Kind   string `json:"kind"` // buffered (StartMessage; WriteMessage*; EndMessage) | direct (SendPartialMessage*; SendMessage) | secret | file (PutFile)
	Chunks []Data `json:"chunks"`
}

func (m Msg) Bytes() []byte {
	var out []byte
	for _, c := range m.Chunks {
		out = append(out, c.Bytes()...)
	}
	if m.Kind == "secret" {
		out = append(out, 0)
	}
	return out
}

func (m Msg) SOps() []SOp {
	var ops []SOp
	switch m.Kind {
	case "buffered":
		ops = append(ops, SOp{Op: "start"})
		for _, c := range m.Chunks {
			ops = append(ops, SOp{Op: "write", D: c})
		}
		ops = append(ops, SOp{Op: "end"})
	case "secret":
		ops = append(ops, SOp{Op: "secret", D: m.Chunks[0]})
	case "file": // PutFile of a file holding the one chunk
		ops = append(ops, SOp{Op: "putfile", D: m.Chunks[0]})
	default:
		for i, c := range m.Chunks {
			if i == len(m.Chunks)-1 {
				ops = append(ops, SOp{Op: "send", D: c})
			} else {
				ops = append(ops, SOp{Op: "partial", D: c})
			}
		}
		if len(m.Chunks) == 0 {
			ops = append(ops, SOp{Op: "send", D: Lit(nil)})
		}
	}
	return ops
}

// ROpsFor returns the receive operations that read one message of n bytes with the given API.
func ROpsFor(api string, n, readChunk int) []ROp {
	switch api {
	case "complete":
		return []ROp{{Op: "complete"}}
	case "msgall":
		return []ROp{{Op: "msgall"}}
	case "framewe":
		return []ROp{{Op: "framewe"}}
	case "frame":
		return []ROp{{Op: "frame"}}
	case "secret":
		return []ROp{{Op: "secret"}}
	case "getfile":
		return []ROp{{Op: "getfile"}}
	}
	ops := []ROp{{Op: "start"}}
	if readChunk <= 0 {
		readChunk = 1
	}
	// at most ~40 reads per message: a larger message is read in proportionally larger pieces
	if n/readChunk > 40 {
		readChunk = n/40 + 1
	}
	for got := 0; got < n; got += readChunk {
		ops = append(ops, ROp{Op: "read", N: readChunk})
	}
	return append(ops, ROp{Op: "end"})
}

// Delivered reassembles what a receive-op group returned.
func Delivered(api string, rs []RRes) (data []byte, ok bool) {
	for _, r := range rs {
		if !r.OK {
			return data, false
		}
		data = append(data, r.Data...)
	}
	return data, true
}
