// Package streamsim drives real cedar Streams over in-memory connections whose
// byte traffic the harness can capture, edit and replay, and contains an
// independent reference codec for protected frames (refcodec.go).
package streamsim

import (
	"bytes"
	"io"
	"net"
	"sync"
	"time"
)

// Wire is a one-directional in-memory byte channel.
type Wire struct {
	mu  sync.Mutex
	buf bytes.Buffer
	All []byte // everything ever written
}

func (w *Wire) Write(p []byte) {
	w.mu.Lock()
	defer w.mu.Unlock()
	w.buf.Write(p)
	w.All = append(w.All, p...)
}
func (w *Wire) Read(p []byte) (int, error) {
	w.mu.Lock()
	defer w.mu.Unlock()
	if w.buf.Len() == 0 {
		return 0, io.EOF
	}
	return w.buf.Read(p)
}

// Pending returns (and keeps) the unread bytes.
func (w *Wire) Pending() []byte {
	w.mu.Lock()
	defer w.mu.Unlock()
	return append([]byte(nil), w.buf.Bytes()...)
}

// Replace discards unread bytes and queues b instead.
func (w *Wire) Replace(b []byte) {
	w.mu.Lock()
	defer w.mu.Unlock()
	w.buf.Reset()
	w.buf.Write(b)
}

// Conn is a net.Conn writing to Out and reading from In (EOF when In is empty:
// the harness is single-threaded and never blocks).
type Conn struct {
	In, Out *Wire
	Closed  bool
	// FailWriteAt >= 1: the n-th Write call delivers its bytes and then reports an error
	// (a timeout / reset noticed after the data left); 0 = never.
	FailWriteAt int
	writes      int
	// ReadMax >= 1: a Read call returns at most that many bytes (short reads, as a TCP
	// socket may deliver them); 0 = everything available.
	ReadMax int
}

type addr string

func (a addr) Network() string { return "mem" }
func (a addr) String() string  { return string(a) }

func (c *Conn) Read(p []byte) (int, error) {
	if c.Closed {
		return 0, io.ErrClosedPipe
	}
	if c.ReadMax > 0 && len(p) > c.ReadMax {
		p = p[:c.ReadMax]
	}
	return c.In.Read(p)
}
func (c *Conn) Write(p []byte) (int, error) {
	if c.Closed {
		return 0, io.ErrClosedPipe
	}
	c.Out.Write(p)
	c.writes++
	if c.FailWriteAt > 0 && c.writes == c.FailWriteAt {
		return len(p), io.ErrUnexpectedEOF
	}
	return len(p), nil
}
func (c *Conn) Close() error                       { c.Closed = true; return nil }
func (c *Conn) LocalAddr() net.Addr                { return addr("127.0.0.1:1") }
func (c *Conn) RemoteAddr() net.Addr               { return addr("127.0.0.1:2") }
func (c *Conn) SetDeadline(t time.Time) error      { return nil }
func (c *Conn) SetReadDeadline(t time.Time) error  { return nil }
func (c *Conn) SetWriteDeadline(t time.Time) error { return nil }

// Pair returns two connected in-memory conns and the two wires (a->b, b->a).
func Pair() (a, b *Conn, ab, ba *Wire) {
	ab, ba = &Wire{}, &Wire{}
	a = &Conn{In: ba, Out: ab}
	b = &Conn{In: ab, Out: ba}
	return
}

// RawFrame is one frame as it appears on the wire.
type RawFrame struct {
	Flag byte
	Len  uint32 // header length field
	Body []byte // may be shorter than Len if the stream was cut
}

func (f RawFrame) Bytes() []byte {
	h := []byte{f.Flag, byte(f.Len >> 24), byte(f.Len >> 16), byte(f.Len >> 8), byte(f.Len)}
	return append(h, f.Body...)
}

// ParseFrames segments a byte stream by the 5-byte headers; a trailing
// incomplete frame is returned in rest.
func ParseFrames(b []byte) (frames []RawFrame, rest []byte) {
	for len(b) >= 5 {
		n := uint32(b[1])<<24 | uint32(b[2])<<16 | uint32(b[3])<<8 | uint32(b[4])
		if uint64(len(b)-5) < uint64(n) {
			break
		}
		frames = append(frames, RawFrame{Flag: b[0], Len: n, Body: append([]byte(nil), b[5:5+n]...)})
		b = b[5+n:]
	}
	return frames, b
}
