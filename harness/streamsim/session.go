package streamsim

// session.go executes a scripted two-endpoint session on REAL cedar Streams
// over in-memory wires, records projected observables, and prints the case as
// a Coq term for Run/StreamRun.v. Property-specific generators and oracles
// (vh-c01, vh-c02, vh-c12, vh-c15) are built on top of Exec.

import (
	"bytes"
	"context"
	"crypto/rand"
	"encoding/binary"
	"fmt"
	"os"
	"strings"

	"verifharness/core"

	"github.com/bbockelm/cedar/message"
	"github.com/bbockelm/cedar/stream"
)

// Data is a byte string, literal or a descriptor into the cyclic payload table.
type Data struct {
	Lit []byte `json:"lit,omitempty"`
	Off int    `json:"off,omitempty"`
	Len int    `json:"len,omitempty"`
}

func Lit(b []byte) Data { return Data{Lit: append([]byte{}, b...)} }
func Pay(off, n int) Data {
	if n <= 64 {
		return Lit(core.Payload(off, n))
	}
	return Data{Off: off, Len: n}
}

// PayTail is a payload descriptor followed by literal bytes.
func PayTail(off, n int, tail []byte) Data {
	if n <= 0 {
		return Lit(tail)
	}
	return Data{Off: off, Len: n, Lit: append([]byte{}, tail...)}
}
func (d Data) Bytes() []byte {
	if d.Len > 0 {
		return append(core.Payload(d.Off, d.Len), d.Lit...)
	}
	return d.Lit
}
func (d Data) Term() string {
	if d.Len > 0 {
		if len(d.Lit) > 0 {
			return "(" + core.PayloadTerm(d.Off, d.Len) + " ++ " + core.Hex(d.Lit) + ")%list"
		}
		return core.PayloadTerm(d.Off, d.Len)
	}
	return core.Hex(d.Lit)
}

type SOp struct {
	Op string `json:"op"` // send partial write end start secret setcrypto
	D  Data   `json:"d,omitempty"`
	B  bool   `json:"b,omitempty"`
}
type ROp struct {
	Op string `json:"op"` // complete framewe frame start read end msgall
	N  int    `json:"n,omitempty"`
}

// EditItem describes one frame of the edited byte stream handed to the receiver.
type EditItem struct {
	Kind string `json:"kind"` // gen (copy of frame J of this direction's history), raw, flip, cut, hdr
	J    int    `json:"j,omitempty"`
	Flag int    `json:"flag,omitempty"` // for gen: header flag (-1 = original); raw: flag
	Raw  []byte `json:"raw,omitempty"`
	Pos  int    `json:"pos,omitempty"` // flip: bit position within the whole frame (header included); cut: bytes kept of the whole frame
	Len  int    `json:"len,omitempty"` // hdr: forged length field
}

type Step struct {
	Kind    string     `json:"kind"`          // phase handoff crypto rekey
	Key     []byte     `json:"key,omitempty"` // rekey: the key to install (default: the setup's)
	ASends  bool       `json:"a_sends,omitempty"`
	SOps    []SOp      `json:"sops,omitempty"`
	Edit    []EditItem `json:"edit,omitempty"`
	HasEdit bool       `json:"has_edit,omitempty"`
	NoWire  bool       `json:"no_wire,omitempty"` // do not compare this phase\'s wire frames with the model (covered elsewhere)
	ROps    []ROp      `json:"rops,omitempty"`
	WhoA    bool       `json:"who_a,omitempty"`
	// ReadOn: the receiver keeps issuing its receive ops after a failure (only meaningful for
	// frame-level reads after faults that keep the framing intact)
	ReadOn   bool `json:"read_on,omitempty"`
	SoftFail bool `json:"soft_fail,omitempty"` // the case goes on after a rejected EndMessageRead ending this phase
	On       bool `json:"on,omitempty"`
}

type Setup struct {
	Kind  string `json:"kind"` // plain keyed blobs
	Key   []byte `json:"key,omitempty"`
	PreAB []Data `json:"pre_ab,omitempty"`
	PreBA []Data `json:"pre_ba,omitempty"`
	// relay: what the other side is handed instead of the sent cleartext frames
	SeenAB []SeenFrame `json:"seen_ab,omitempty"`
	SeenBA []SeenFrame `json:"seen_ba,omitempty"`
	// blobs: counters / first-frame flags to start from (IVs are drawn at execution)
	CtrAB, CtrBA uint32 `json:",omitempty"`
	FinAB, FinBA bool   `json:",omitempty"` // first protected frame already exchanged in that direction
	// relay: bit 0 SetConnection on both ends between the two legs, bit 1 FinalizeDigests on both
	// ends before the keys, bit 2 SetConnection on both ends before the keys
	RelayOpts int `json:",omitempty"`
	// ReadMax >= 1: both connections deliver at most that many bytes per Read call (short reads);
	// invisible to the model, which sees a byte stream.
	ReadMax int `json:",omitempty"`
	// Ctx: every stream call gets a cancellable context (the watcher path of
	// readWithContext / writeWithContext) instead of context.Background().
	Ctx bool `json:",omitempty"`
}

// SeenFrame is a cleartext frame as delivered by an editing relay.
type SeenFrame struct {
	Flag int  `json:"flag"`
	D    Data `json:"d"`
}

type Case struct {
	Setup Setup  `json:"setup"`
	Steps []Step `json:"steps"`
}

// ---- observations -----------------------------------------------------------

type RRes struct {
	OK   bool
	Unit bool
	Data []byte
	Flag int // 255 = n/a
	Err  string
}

type SentFrame struct {
	Raw                  RawFrame
	Enc                  bool
	Opened               *Opened // nil for cleartext frames or when the reference codec could not open it
	OpenErr              error
	Plain                []byte
	sentClear, recvClear []byte
}

type PhaseObs struct {
	SErr         []bool // per send op: failed?
	SErrTxt      []string
	Frames       []SentFrame
	Edited       []string // eframe terms
	EditedFrames []RawFrame
	EditRest     int
	RRes         []RRes
}

type Obs struct {
	Phases   []*PhaseObs // index-aligned with steps (nil for non-phase steps)
	StepOK   []bool      // handoff / crypto outcome
	IVA, IVB []byte
	MoreIVs  [][]byte // base IVs after each re-keying step (A's, B's)
	SetupErr error
	// every message delivered by a whole-message receive op, per direction, and messages sent
	HistAB, HistBA []RawFrame
}

// Endpoint wraps a real stream and the wires.
type world struct {
	a, b           *stream.Stream
	ca, cb         *Conn
	ab, ba         *Wire
	dirAB          *Dir // reference state for frames A->B
	dirBA          *Dir
	keyed          bool
	histAB, histBA []RawFrame
	scratch        []byte
}

var bg = context.Background()

func xb(b []byte) string {
	if len(b) <= 96 {
		return "(XB " + core.Hex(b) + ")"
	}
	var sum uint64
	for _, x := range b {
		sum += uint64(x)
	}
	return fmt.Sprintf("(XD (%d, %d, %s, %s))", len(b), sum%4294967296, core.Hex(b[:8]), core.Hex(b[len(b)-8:]))
}

func blobBytes(key, eiv, div []byte, ectr, dctr uint32, finSend, finRecv bool) []byte {
	var b bytes.Buffer
	b.WriteString(stream.VerifCryptoStateMagic)
	binary.Write(&b, binary.BigEndian, uint16(stream.VerifCryptoStateVersion))
	flags := byte(stream.VerifCsFlagEncrypted)
	if finSend {
		flags |= stream.VerifCsFlagFinSendAAD
	}
	if finRecv {
		flags |= stream.VerifCsFlagFinRecvAAD
	}
	b.WriteByte(flags)
	b.Write(key)
	b.Write(eiv)
	b.Write(div)
	binary.Write(&b, binary.BigEndian, ectr)
	binary.Write(&b, binary.BigEndian, dctr)
	zero := make([]byte, 32)
	for i := 0; i < 2; i++ {
		binary.Write(&b, binary.BigEndian, uint16(32))
		b.Write(zero)
	}
	binary.Write(&b, binary.BigEndian, uint16(0))
	return b.Bytes()
}

func blobTerm(key, eiv, div []byte, ectr, dctr uint32, finSend, finRecv bool) string {
	flags := uint64(stream.VerifCsFlagEncrypted)
	if finSend {
		flags |= stream.VerifCsFlagFinSendAAD
	}
	if finRecv {
		flags |= stream.VerifCsFlagFinRecvAAD
	}
	return fmt.Sprintf("{| b_magic := %s; b_version := %d; b_flags := %d; b_key := %s; b_eiv := %s; b_div := %s; b_ectr := %d; b_dctr := %d; b_sdg := Some DZero; b_rdg := Some DZero; b_peer := [] |}",
		core.Hex([]byte(stream.VerifCryptoStateMagic)), stream.VerifCryptoStateVersion, flags, core.Hex(key), core.Hex(eiv), core.Hex(div), ectr, dctr)
}

func rnd(n int) []byte {
	b := make([]byte, n)
	rand.Read(b)
	return b
}

// Exec runs the case on real streams. setupTerm is the Coq term of the setup
// (it contains the IVs actually drawn).
func Exec(c *Case) (obs *Obs, term string) {
	obs = &Obs{}
	w := &world{}
	w.ca, w.cb, w.ab, w.ba = Pair()
	w.ca.ReadMax, w.cb.ReadMax = c.Setup.ReadMax, c.Setup.ReadMax
	bg = context.Background()
	if c.Setup.Ctx {
		ctx, cancel := context.WithCancel(context.Background())
		defer cancel()
		bg = ctx
	}
	var setupTerm string
	switch c.Setup.Kind {
	case "plain":
		w.a, w.b = stream.NewStream(w.ca), stream.NewStream(w.cb)
		setupTerm = "SPlain"
	case "keyed":
		w.a, w.b = stream.NewStream(w.ca), stream.NewStream(w.cb)
		w.dirAB, w.dirBA = NewDir(c.Setup.Key), NewDir(c.Setup.Key)
		pre := func(s, r *stream.Stream, out *Wire, ds []Data, snd, rcv *Dir) error {
			for _, d := range ds {
				if err := s.SendMessage(bg, d.Bytes()); err != nil {
					return err
				}
				fr, _ := ParseFrames(out.Pending())
				for _, f := range fr {
					NoteClear(snd, rcv, f)
				}
				if _, err := r.ReceiveCompleteMessage(bg); err != nil {
					return err
				}
			}
			return nil
		}
		if err := pre(w.a, w.b, w.ab, c.Setup.PreAB, w.dirAB, w.dirBA); err != nil {
			obs.SetupErr = err
		}
		if err := pre(w.b, w.a, w.ba, c.Setup.PreBA, w.dirBA, w.dirAB); err != nil {
			obs.SetupErr = err
		}
		if err := w.a.SetSymmetricKey(c.Setup.Key); err != nil {
			obs.SetupErr = err
		}
		if err := w.b.SetSymmetricKey(c.Setup.Key); err != nil {
			obs.SetupErr = err
		}
		w.keyed = true
		sa, sb := w.a.VerifSnapshot(), w.b.VerifSnapshot()
		obs.IVA, obs.IVB = sa.EncryptIV[:], sb.EncryptIV[:]
		var pa, pb []string
		for _, d := range c.Setup.PreAB {
			pa = append(pa, d.Term())
		}
		for _, d := range c.Setup.PreBA {
			pb = append(pb, d.Term())
		}
		setupTerm = fmt.Sprintf("(SKeyed %s %s %s %s %s)", core.Hex(c.Setup.Key), core.Hex(obs.IVA), core.Hex(obs.IVB), core.List(pa), core.List(pb))
	case "relay":
		w.a, w.b = stream.NewStream(w.ca), stream.NewStream(w.cb)
		w.dirAB, w.dirBA = NewDir(c.Setup.Key), NewDir(c.Setup.Key)
		// the reference codec follows what each SENDER put on the wire for its own digest and what
		// each RECEIVER was handed for the peer's: after an edit they differ, and a frame sealed by A
		// is then (correctly) not openable with B's view. dirAB is used to open A's frames: it must
		// use A's view (A sent sentAB, A received seenBA).
		leg := func(s, r *stream.Stream, out *Wire, sent []Data, seen []SeenFrame, sndDir, rcvDir *Dir) error {
			for _, d := range sent {
				if err := s.SendMessage(bg, d.Bytes()); err != nil {
					return err
				}
			}
			fr, _ := ParseFrames(out.Pending())
			for _, f := range fr {
				b := f.Bytes()
				sndDir.SentClear = append(sndDir.SentClear, b...)
				sndDir.SentAny = true
			}
			var edited []byte
			for _, sf := range seen {
				d := sf.D.Bytes()
				f := RawFrame{Flag: byte(sf.Flag), Len: uint32(len(d)), Body: d}
				edited = append(edited, f.Bytes()...)
			}
			out.Replace(edited)
			for range seen {
				if _, _, err := r.ReceiveFrameWithEnd(bg); err != nil {
					return err
				}
			}
			return nil
		}
		// dirAB opens frames sealed by A: its AAD is (A sent) || (A received)
		if err := leg(w.a, w.b, w.ab, c.Setup.PreAB, c.Setup.SeenAB, w.dirAB, w.dirBA); err != nil {
			obs.SetupErr = err
		}
		if c.Setup.RelayOpts&1 != 0 { // SetConnection on both ends in the middle of the negotiation
			w.a.SetConnection(w.ca)
			w.b.SetConnection(w.cb)
		}
		if err := leg(w.b, w.a, w.ba, c.Setup.PreBA, c.Setup.SeenBA, w.dirBA, w.dirAB); err != nil {
			obs.SetupErr = err
		}
		// what A received is what the relay handed it (seenBA); what B received is seenAB
		for _, sf := range c.Setup.SeenBA {
			d := sf.D.Bytes()
			w.dirAB.RecvClear = append(w.dirAB.RecvClear, RawFrame{Flag: byte(sf.Flag), Len: uint32(len(d)), Body: d}.Bytes()...)
			w.dirAB.RecvAny = true
		}
		for _, sf := range c.Setup.SeenAB {
			d := sf.D.Bytes()
			w.dirBA.RecvClear = append(w.dirBA.RecvClear, RawFrame{Flag: byte(sf.Flag), Len: uint32(len(d)), Body: d}.Bytes()...)
			w.dirBA.RecvAny = true
		}
		if c.Setup.RelayOpts&4 != 0 {
			w.a.SetConnection(w.ca)
			w.b.SetConnection(w.cb)
		}
		if c.Setup.RelayOpts&2 != 0 { // the plaintext-session path: digests frozen before a key arrives after all
			w.a.FinalizeDigests()
			w.b.FinalizeDigests()
		}
		if obs.SetupErr == nil {
			if err := w.a.SetSymmetricKey(c.Setup.Key); err != nil {
				obs.SetupErr = err
			}
			if err := w.b.SetSymmetricKey(c.Setup.Key); err != nil {
				obs.SetupErr = err
			}
		}
		w.keyed = true
		{
			sa, sb := w.a.VerifSnapshot(), w.b.VerifSnapshot()
			obs.IVA, obs.IVB = sa.EncryptIV[:], sb.EncryptIV[:]
			tl := func(ds []Data) string {
				var xs []string
				for _, d := range ds {
					xs = append(xs, d.Term())
				}
				return core.List(xs)
			}
			sl := func(fs []SeenFrame) string {
				var xs []string
				for _, f := range fs {
					xs = append(xs, core.Pair(fmt.Sprint(f.Flag), f.D.Term()))
				}
				return core.List(xs)
			}
			setupTerm = fmt.Sprintf("(SRelay %s %s %s %s %s %s %s)", core.Hex(c.Setup.Key), core.Hex(obs.IVA), core.Hex(obs.IVB),
				tl(c.Setup.PreAB), sl(c.Setup.SeenAB), tl(c.Setup.PreBA), sl(c.Setup.SeenBA))
			if c.Setup.RelayOpts != 0 {
				setupTerm = fmt.Sprintf("(SRelayX %d %s %s %s %s %s %s %s)", c.Setup.RelayOpts, core.Hex(c.Setup.Key), core.Hex(obs.IVA), core.Hex(obs.IVB),
					tl(c.Setup.PreAB), sl(c.Setup.SeenAB), tl(c.Setup.PreBA), sl(c.Setup.SeenBA))
			}
		}
	case "blobs":
		ivAB, ivBA := rnd(16), rnd(16)
		s := c.Setup
		// A sends with ivAB from counter CtrAB and receives BA; B mirrors. If a
		// direction has not started (ctr 0, fin false) its IV travels in the first frame.
		ba := blobBytes(s.Key, ivAB, ivBA, s.CtrAB, s.CtrBA, s.FinAB, s.FinBA)
		bb := blobBytes(s.Key, ivBA, ivAB, s.CtrBA, s.CtrAB, s.FinBA, s.FinAB)
		var err error
		if w.a, err = stream.NewStreamWithCryptoState(w.ca, ba); err != nil {
			obs.SetupErr = err
			return obs, ""
		}
		if w.b, err = stream.NewStreamWithCryptoState(w.cb, bb); err != nil {
			obs.SetupErr = err
			return obs, ""
		}
		// the caller owns the blobs: it may wipe or reuse them once the import has returned
		clobber(ba)
		clobber(bb)
		w.keyed = true
		w.dirAB, w.dirBA = NewDir(s.Key), NewDir(s.Key)
		w.dirAB.Counter, w.dirAB.First = s.CtrAB, !s.FinAB
		w.dirBA.Counter, w.dirBA.First = s.CtrBA, !s.FinBA
		if s.CtrAB > 0 {
			w.dirAB.BaseIV = ivAB
		}
		if s.CtrBA > 0 {
			w.dirBA.BaseIV = ivBA
		}
		obs.IVA, obs.IVB = ivAB, ivBA
		setupTerm = fmt.Sprintf("(SBlobs %s %s)", blobTerm(s.Key, ivAB, ivBA, s.CtrAB, s.CtrBA, s.FinAB, s.FinBA), blobTerm(s.Key, ivBA, ivAB, s.CtrBA, s.CtrAB, s.FinBA, s.FinAB))
	}
	if obs.SetupErr != nil {
		return obs, ""
	}
	var stepTerms []string
	for i := range c.Steps {
		st := &c.Steps[i]
		switch st.Kind {
		case "phase":
			po := w.phase(st)
			obs.Phases = append(obs.Phases, po)
			obs.StepOK = append(obs.StepOK, true)
			stepTerms = append(stepTerms, phaseTerm(st, po))
			// stop after a receive failure: the model does not follow a failed receiver
			failed := false
			for ri, r := range po.RRes {
				if !r.OK {
					failed = true
					// a rejected EndMessageRead as the last op is a clean refusal the model follows
					if st.SoftFail && ri == len(po.RRes)-1 && ri < len(st.ROps) && st.ROps[ri].Op == "end" {
						failed = false
					}
					// ... and so is running out of data exactly at a frame boundary (a read timeout
					// between two frames of a message): nothing was consumed, the next read goes on
					wire := w.ab
					if !st.ASends {
						wire = w.ba
					}
					if st.SoftFail && ri == len(po.RRes)-1 && len(wire.Pending()) == 0 && strings.Contains(r.Err, "EOF") {
						failed = false
					}
				}
			}
			if failed {
				c.Steps = c.Steps[:i+1]
				goto done
			}
		case "handoff":
			s, conn := w.a, w.ca
			if !st.WhoA {
				s, conn = w.b, w.cb
			}
			blob, err := s.ExportCryptoState()
			ok := err == nil
			if ok {
				// hand the blob over in a slice of exactly its length and wipe it afterwards, as a caller
				// holding raw key material would: the imported stream must not keep pointing into it
				blob = append(make([]byte, 0, len(blob)), blob...)
				ns, err2 := stream.NewStreamWithCryptoState(conn, blob)
				clobber(blob)
				if err2 != nil {
					ok = false
				} else if st.WhoA {
					w.a = ns
				} else {
					w.b = ns
				}
			}
			obs.Phases = append(obs.Phases, nil)
			obs.StepOK = append(obs.StepOK, ok)
			stepTerms = append(stepTerms, fmt.Sprintf("StHandoff %s %s", core.Bool(st.WhoA), core.Bool(ok)))
		case "rekey":
			// SetSymmetricKey once more on both ends (the same key unless the step names another)
			k := st.Key
			if len(k) == 0 {
				k = c.Setup.Key
			}
			ea, eb := w.a.SetSymmetricKey(k), w.b.SetSymmetricKey(k)
			ok := ea == nil && eb == nil
			sa, sb := w.a.VerifSnapshot(), w.b.VerifSnapshot()
			ivA, ivB := append([]byte(nil), sa.EncryptIV[:]...), append([]byte(nil), sb.EncryptIV[:]...)
			obs.MoreIVs = append(obs.MoreIVs, ivA, ivB)
			if ok {
				for _, d := range []*Dir{w.dirAB, w.dirBA} {
					d.Key = append([]byte(nil), k...)
					d.BaseIV, d.Counter, d.First = nil, 0, true
				}
			}
			obs.Phases = append(obs.Phases, nil)
			obs.StepOK = append(obs.StepOK, ok)
			stepTerms = append(stepTerms, fmt.Sprintf("StRekey %s %s %s %s", core.Hex(k), core.Hex(ivA), core.Hex(ivB), core.Bool(ok)))
		case "crypto":
			s := w.a
			if !st.WhoA {
				s = w.b
			}
			ok := s.SetCryptoMode(st.On)
			obs.Phases = append(obs.Phases, nil)
			obs.StepOK = append(obs.StepOK, ok)
			stepTerms = append(stepTerms, fmt.Sprintf("StCrypto %s %s %s", core.Bool(st.WhoA), core.Bool(st.On), core.Bool(ok)))
		}
	}
done:
	obs.HistAB, obs.HistBA = w.histAB, w.histBA
	return obs, fmt.Sprintf("CPair %s [%s]", setupTerm, strings.Join(stepTerms, ";\n     "))
}

func (w *world) phase(st *Step) *PhaseObs {
	po := &PhaseObs{}
	snd, rcv, out := w.a, w.b, w.ab
	dir := w.dirAB
	hist := &w.histAB
	if !st.ASends {
		snd, rcv, out = w.b, w.a, w.ba
		dir = w.dirBA
		hist = &w.histBA
	}
	consumed := len(out.Pending())
	for _, op := range st.SOps {
		snap := snd.VerifSnapshot()
		var err error
		// callers may reuse their buffers: hand the stream a scratch slice and clobber it afterwards
		scratch := func() []byte {
			b := op.D.Bytes()
			w.scratch = append(w.scratch[:0], b...)
			return w.scratch[:len(b):len(b)]
		}
		clobber := func() {
			for i := range w.scratch {
				w.scratch[i] = 0xEE
			}
		}
		switch op.Op {
		case "send":
			err = snd.SendMessage(bg, scratch())
			clobber()
		case "partial":
			err = snd.SendPartialMessage(bg, scratch())
			clobber()
		case "write":
			err = snd.WriteMessage(bg, scratch())
			clobber()
		case "end":
			err = snd.EndMessage(bg)
		case "start":
			snd.StartMessage()
		case "secret":
			err = snd.PutSecret(bg, string(op.D.Bytes()))
		case "putfile":
			var path string
			if path, err = tempFile(op.D.Bytes()); err == nil {
				_, err = snd.PutFile(bg, path)
				os.Remove(path)
			}
		case "setcrypto":
			if !snd.SetCryptoMode(op.B) {
				err = fmt.Errorf("SetCryptoMode refused")
			}
		}
		po.SErr = append(po.SErr, err != nil)
		if err != nil {
			po.SErrTxt = append(po.SErrTxt, err.Error())
		} else {
			po.SErrTxt = append(po.SErrTxt, "")
		}
		pend := out.Pending()
		fr, _ := ParseFrames(pend[consumed:])
		for _, f := range fr {
			consumed += 5 + len(f.Body)
			sf := SentFrame{Raw: f}
			sf.Enc = snap.HasKey && (snap.Encrypted || op.Op == "secret")
			if sf.Enc && dir != nil {
				sf.Opened, sf.OpenErr = dir.Open(f)
				if sf.Opened != nil {
					sf.Plain = sf.Opened.Plain
					sf.sentClear, sf.recvClear = dir.SentClear, dir.RecvClear
				}
			} else {
				sf.Plain = f.Body
			}
			po.Frames = append(po.Frames, sf)
			*hist = append(*hist, f)
		}
	}
	wireBytes := out.Pending()
	if st.HasEdit {
		var edited []byte
		otherHist := w.histBA
		if !st.ASends {
			otherHist = w.histAB
		}
		for _, e := range st.Edit {
			if e.Kind == "poison" {
				// a forged would-be first frame whose IV field is the nonce of the receiver's OWN frame J
				// (its base IV with the counter word advanced by J), followed by 16 junk bytes: it cannot
				// open, but it is long enough for the receiver to get as far as gcm.Open
				body := make([]byte, 32)
				if len(otherHist) > 0 && len(otherHist[0].Body) >= 16 {
					copy(body, Nonce(otherHist[0].Body[:16], uint32(e.J)))
				}
				for i := 16; i < 32; i++ {
					body[i] = 0x5c
				}
				edited = append(edited, RawFrame{Flag: 1, Len: 32, Body: body}.Bytes()...)
				continue
			}
			if e.Kind == "refl" { // a frame of the OTHER direction handed to this receiver (reflection)
				e.Kind = "gen"
				edited = append(edited, w.materialize(otherHist, e)...)
				continue
			}
			edited = append(edited, w.materialize(*hist, e)...)
		}
		out.Replace(edited)
		wireBytes = edited
	}
	// what the receiver will see, segmented as the receiver does, classified against history
	efs, rest := ParseFrames(wireBytes)
	po.EditedFrames, po.EditRest = efs, len(rest)
	if st.HasEdit {
		otherHist := w.histBA
		if !st.ASends {
			otherHist = w.histAB
		}
		for _, f := range efs {
			po.Edited = append(po.Edited, classify(*hist, otherHist, f))
		}
	}
	for _, op := range st.ROps {
		r := doRecv(rcv, op)
		po.RRes = append(po.RRes, r)
		if !r.OK && !st.ReadOn {
			break
		}
	}
	return po
}

// tempFile creates a scratch file holding b and returns its path.
func tempFile(b []byte) (string, error) {
	f, err := os.CreateTemp("", "vh-file-*")
	if err != nil {
		return "", err
	}
	defer f.Close()
	if _, err := f.Write(b); err != nil {
		os.Remove(f.Name())
		return "", err
	}
	return f.Name(), nil
}

func (w *world) materialize(hist []RawFrame, e EditItem) []byte {
	get := func(j int) RawFrame {
		if j < 0 || j >= len(hist) {
			return RawFrame{Flag: 1}
		}
		return hist[j]
	}
	switch e.Kind {
	case "gen":
		f := get(e.J)
		if e.Flag >= 0 {
			f.Flag = byte(e.Flag)
		}
		return f.Bytes()
	case "raw":
		return RawFrame{Flag: byte(e.Flag), Len: uint32(len(e.Raw)), Body: e.Raw}.Bytes()
	case "flip":
		b := get(e.J).Bytes()
		if e.Pos/8 < len(b) {
			b[e.Pos/8] ^= 1 << uint(e.Pos%8)
		}
		return b
	case "cut":
		b := get(e.J).Bytes()
		if e.Pos < len(b) {
			b = b[:e.Pos]
		}
		return b
	case "hdr":
		f := get(e.J)
		f.Len = uint32(e.Len)
		return f.Bytes()
	}
	return nil
}

// classify maps a frame of the edited stream to a symbolic eframe: a byte-exact
// copy of the body of some frame of this direction's history (any header flag),
// or raw bytes.
func classify(hist, other []RawFrame, f RawFrame) string {
	for j, h := range hist {
		if len(h.Body) > 0 && bytes.Equal(h.Body, f.Body) {
			return fmt.Sprintf("EGen %d %d", j, f.Flag)
		}
	}
	for j, h := range other {
		if len(h.Body) > 0 && bytes.Equal(h.Body, f.Body) {
			return fmt.Sprintf("EOther %d %d", j, f.Flag)
		}
	}
	b := f.Body
	if len(b) > 2048 {
		b = b[:2048] // content of non-genuine bytes is irrelevant to an encrypted receiver; keep terms small
		return fmt.Sprintf("ERaw %d (%s ++ repeat x00 %d)%%list", f.Flag, core.Hex(b), len(f.Body)-2048)
	}
	return fmt.Sprintf("ERaw %d %s", f.Flag, core.Hex(b))
}

func doRecv(s *stream.Stream, op ROp) (r RRes) {
	defer func() {
		if p := recover(); p != nil {
			r = RRes{Err: fmt.Sprint("panic: ", p)}
		}
	}()
	r.Flag = 255
	switch op.Op {
	case "complete":
		d, err := s.ReceiveCompleteMessage(bg)
		if err != nil {
			return RRes{Err: err.Error()}
		}
		r.OK, r.Data = true, d
	case "getfile":
		path, err := tempFile(nil)
		if err != nil {
			return RRes{Err: err.Error()}
		}
		defer os.Remove(path)
		n, err := s.GetFile(bg, path)
		if err != nil {
			return RRes{Err: err.Error()}
		}
		d, err := os.ReadFile(path)
		if err != nil || int64(len(d)) != n {
			return RRes{Err: fmt.Sprintf("GetFile reported %d bytes, the file holds %d (%v)", n, len(d), err)}
		}
		r.OK, r.Data = true, d
	case "msgall":
		m := message.NewMessageFromStream(s)
		d, err := m.GetRemainingBytes(bg)
		if err != nil {
			return RRes{Err: err.Error()}
		}
		r.OK, r.Data = true, d
	case "framewe":
		d, fl, err := s.ReceiveFrameWithEnd(bg)
		if err != nil {
			return RRes{Err: err.Error()}
		}
		r.OK, r.Data, r.Flag = true, d, int(fl)
	case "frame":
		d, err := s.ReceiveFrame(bg)
		if err != nil {
			return RRes{Err: err.Error()}
		}
		r.OK, r.Data = true, d
	case "secret":
		d, err := s.GetSecret(bg)
		if err != nil {
			return RRes{Err: err.Error()}
		}
		r.OK, r.Data = true, []byte(d)
	case "start":
		if err := s.StartMessageRead(bg); err != nil {
			return RRes{Err: err.Error()}
		}
		r.OK, r.Unit = true, true
	case "read":
		buf := make([]byte, op.N)
		n, err := s.ReadMessageBytes(bg, buf)
		if err != nil {
			return RRes{Err: err.Error()}
		}
		r.OK, r.Data = true, buf[:n]
	case "end":
		if err := s.EndMessageRead(); err != nil {
			return RRes{Err: err.Error()}
		}
		r.OK, r.Unit = true, true
	}
	return r
}

func sopTerm(o SOp) string {
	switch o.Op {
	case "send":
		return "OSend " + o.D.Term()
	case "partial":
		return "OPartial " + o.D.Term()
	case "write":
		return "OWrite " + o.D.Term()
	case "end":
		return "OEnd"
	case "start":
		return "OStart"
	case "secret":
		return "OSecret " + o.D.Term()
	}
	return "OSetCrypto " + core.Bool(o.B)
}
func ropTerm(o ROp) string {
	switch o.Op {
	case "getfile":
		return "RGetFile"
	case "complete":
		return "RComplete"
	case "msgall":
		return "RMsgAll"
	case "framewe":
		return "RFrameWE"
	case "frame":
		return "RFrame"
	case "secret":
		return "RSecret"
	case "start":
		return "RStart"
	case "read":
		return fmt.Sprintf("RRead %d", o.N)
	}
	return "REnd"
}

func optDig(zero bool, clear []byte) string {
	if zero {
		return "None"
	}
	return "(Some " + xb(clear) + ")"
}

func phaseTerm(st *Step, po *PhaseObs) string {
	var so, se, wf, ro, rr []string
	for i, o := range st.SOps {
		so = append(so, sopTerm(o))
		if po.SErr[i] {
			se = append(se, "1")
		} else {
			se = append(se, "0")
		}
	}
	for _, f := range po.Frames {
		iv, nonce, first, sd, rd := "None", core.Hex(nil), false, "None", "None"
		if f.Enc && f.Opened != nil {
			if f.Opened.IV != nil {
				iv = "(Some " + core.Hex(f.Opened.IV) + ")"
			}
			nonce = core.Hex(f.Opened.Nonce)
			first = f.Opened.AADFirst
		}
		_ = sd
		_ = rd
		wf = append(wf, fmt.Sprintf("XW %d %d %s %s %s %s %s %s %s", f.Raw.Flag, f.Raw.Len, iv, core.Bool(f.Enc && f.Opened != nil), nonce, core.Bool(first), f.sdTerm(), f.rdTerm(), xb(f.Plain)))
	}
	for i, o := range st.ROps {
		if i >= len(po.RRes) {
			break
		}
		ro = append(ro, ropTerm(o))
		r := po.RRes[i]
		switch {
		case !r.OK:
			rr = append(rr, "RErr")
		case r.Unit:
			rr = append(rr, "ROkU")
		default:
			rr = append(rr, fmt.Sprintf("ROk %s %d", xb(r.Data), r.Flag))
		}
	}
	sops, serrs := core.List(so), core.List(se)
	if len(st.SOps) == 1 && st.SOps[0].Op == "putfile" {
		// PutFile(d) is the model's message sequence file_msgs d, each sent with SendMessage;
		// the executor requires it to succeed (see Exec)
		sops = "(map OSend (file_msgs " + st.SOps[0].D.Term() + "))"
		serrs = "(map (fun _ => " + se[0] + ") (file_msgs " + st.SOps[0].D.Term() + "))"
	}
	edit := "None"
	if st.HasEdit {
		edit = "(Some " + core.List(po.Edited) + ")"
	}
	wire := "(Some " + core.List(wf) + ")"
	if st.NoWire {
		wire = "None"
	}
	return fmt.Sprintf("StPhase %s %s %s %s %s %s %s", core.Bool(st.ASends), sops, serrs, wire, edit, core.List(ro), core.List(rr))
}

// first-frame digest terms are filled in by Exec through these fields
func (f SentFrame) sdTerm() string {
	if f.Opened == nil || !f.Opened.AADFirst {
		return "None"
	}
	return optDig(f.Opened.SentZero, f.sentClear)
}
func (f SentFrame) rdTerm() string {
	if f.Opened == nil || !f.Opened.AADFirst {
		return "None"
	}
	return optDig(f.Opened.RecvZero, f.recvClear)
}

// clobber overwrites a buffer the caller is entitled to reuse after a call has returned.
func clobber(b []byte) {
	for i := range b {
		b[i] = 0xEE
	}
}
